package c17

import (
	"encoding/json"
	"fmt"
	"os"
	"path/filepath"
	"strings"
	"testing"

	"github.com/GuanceCloud/platypus/pkg/ast"
	"github.com/GuanceCloud/platypus/pkg/engine/runtimev2"
	"github.com/GuanceCloud/platypus/pkg/errchain"
	"github.com/GuanceCloud/platypus/pkg/token"
	"pgregory.net/rapid"
	"verifharness/conv"
	"verifharness/evid"
	"verifharness/gen"
	"verifharness/impl"
	"verifharness/rk"
	"verifharness/sem"
)

const prop = "C17"

func TestMain(m *testing.M) {
	evid.Init(prop, "exploration",
		"(i) generated programs printed under random admissible layouts (multi-byte characters, CRLF, comments): every position field of the parsed tree must equal the printer's byte offset of that token and its Ln/Col the independent computation; (ii) generated programs with one injected load-time fault (unknown function, wrong argument count/kind, break/continue outside a loop) or run-time fault (ill-typed operation, index out of range, zero divisor, zero slice step, non-iterable, failing builtin, non-string map key) at a known statement, nested in branches/loops/call arguments: the error names the script, 0<=Pos<len(src), every chain position lies inside the faulty statement's span, Ln/Col consistent; (iii) exhaustively all texts of length<=7 over {a, LF, é} x all offsets: PosCache.LnCol, token.LnCol and the independent computation agree; (iv) error chains of 1..4 positions: Error() rendering, JSON round trip, Copy().ChainAppend leaves the original untouched. Non-trivial: token not on line 1 or preceded by a multi-byte rune on its line; fault in a nested statement; distinct by (node kind, line>1, multibyte) resp. (fault kind, wrapper, nesting).",
		"line = 1 + number of LF bytes before the offset; column = bytes since the line start + 1 (the property's definition)")
	impl.DisturbEvery = 3 // every third parse/load is preceded by a parse of an unrelated malformed text
	code := m.Run()
	evid.Flush(code == 0)
	os.Exit(code)
}

type replay struct {
	Src   string `json:"src"`
	Part  string `json:"part"`
	Fault string `json:"fault,omitempty"`
	Span  [2]int `json:"span,omitempty"`
	Load  bool   `json:"load,omitempty"`
}

// ------------------------------------------------------------------ (i) tree positions

type posDiff struct{ what string }

func cmpInts(path, field string, want, got []int, out *[]string) {
	if len(want) != len(got) {
		*out = append(*out, fmt.Sprintf("%s.%s: %d entries, want %d", path, field, len(got), len(want)))
		return
	}
	for i := range want {
		if want[i] != got[i] {
			*out = append(*out, fmt.Sprintf("%s.%s[%d] = %d, token is at %d", path, field, i, got[i], want[i]))
		}
	}
}

func cmpInt(path, field string, want, got int, out *[]string) {
	if want != got {
		*out = append(*out, fmt.Sprintf("%s.%s = %d, token is at %d", path, field, got, want))
	}
}

// comparePos walks the printed tree (want) and the parsed tree (got) together.
func comparePos(want, got *gen.Node, path string, out *[]string) {
	if want == nil || got == nil {
		return
	}
	if want.Kind != got.Kind {
		// a sign folded into a numeric literal: the literal starts at its (outermost) sign
		if want.Kind == gen.Unary && (want.Op == "-" || want.Op == "+") && (got.Kind == gen.Int || got.Kind == gen.Float) {
			inner := want
			for inner.Kind == gen.Unary && (inner.Op == "-" || inner.Op == "+") && inner.X != nil {
				inner = inner.X
			}
			if inner.Kind == gen.Int || inner.Kind == gen.Float {
				cmpInt(path+"/SignedLiteral", "Start", want.P.Tok, got.P.Tok, out)
			}
		}
		return // structure differs otherwise: C06's business
	}
	p := path + "/" + want.Kind.String()
	w, g := want.P, got.P
	switch want.Kind {
	case gen.Ident, gen.Str, gen.Int, gen.Float, gen.Bool, gen.Nil, gen.Break, gen.Continue:
		cmpInt(p, "Start", w.Tok, g.Tok, out)
	case gen.List, gen.Map, gen.Paren:
		cmpInt(p, "Open", w.L, g.L, out)
		cmpInt(p, "Close", w.R, g.R, out)
	case gen.Attr:
		cmpInt(p, "Start", w.Start, g.Start, out)
	case gen.Index:
		if want.X == nil {
			cmpInt(p, "Start(dot)", w.Start, g.Start, out)
		}
		cmpInts(p, "LBracket", w.Ls, g.Ls, out)
		cmpInts(p, "RBracket", w.Rs, g.Rs, out)
	case gen.Unary, gen.Binary, gen.In, gen.Assign:
		cmpInt(p, "OpPos", w.Tok, g.Tok, out)
	case gen.Call:
		cmpInt(p, "NamePos", w.Tok, g.Tok, out)
		cmpInt(p, "LParen", w.L, g.L, out)
		cmpInt(p, "RParen", w.R, g.R, out)
	case gen.Slice:
		cmpInt(p, "LBracket", w.L, g.L, out)
		cmpInt(p, "RBracket", w.R, g.R, out)
	case gen.If:
		cmpInts(p, "IfPos", w.Ifs, g.Ifs, out)
		if want.HasElse {
			cmpInt(p, "ElsePos", w.ElsePos, g.ElsePos, out)
		}
		cmpInts(p, "LBrace", w.BlockL, g.BlockL, out)
		cmpInts(p, "RBrace", w.BlockR, g.BlockR, out)
	case gen.For:
		cmpInt(p, "ForPos", w.Tok, g.Tok, out)
		cmpInts(p, "LBrace", w.BlockL, g.BlockL, out)
		cmpInts(p, "RBrace", w.BlockR, g.BlockR, out)
	case gen.ForIn:
		cmpInt(p, "ForPos", w.Tok, g.Tok, out)
		cmpInt(p, "InPos", w.InPos, g.InPos, out)
		cmpInts(p, "LBrace", w.BlockL, g.BlockL, out)
		cmpInts(p, "RBrace", w.BlockR, g.BlockR, out)
	}
	pair := func(a, b *gen.Node) { comparePos(a, b, p, out) }
	pair(want.X, got.X)
	pair(want.Y, got.Y)
	pair(want.Lo, got.Lo)
	pair(want.Hi, got.Hi)
	pair(want.Step, got.Step)
	lists := func(a, b []*gen.Node) {
		if len(a) != len(b) {
			return
		}
		for i := range a {
			pair(a[i], b[i])
		}
	}
	lists(want.Args, got.Args)
	lists(want.Rhs, got.Rhs)
	lists(want.Conds, got.Conds)
	if len(want.Blocks) == len(got.Blocks) {
		for i := range want.Blocks {
			lists(want.Blocks[i], got.Blocks[i])
		}
	}
	lists(want.Else, got.Else)
	lists(want.Body, got.Body)
}

func lineInfo(src string, pos int) (line2 bool, multibyte bool) {
	if pos < 0 || pos > len(src) {
		return false, false
	}
	ls := strings.LastIndexByte(src[:pos], '\n') + 1
	for i := ls; i < pos; i++ {
		if src[i] >= 0x80 {
			multibyte = true
		}
	}
	return ls > 0, multibyte
}

func checkTreePositions(t rk.Failer, slot string, prog []*gen.Node, src string) {
	stmts, err, crash := impl.Parse("c17.p", src)
	if crash != nil || err != nil {
		return // C05/C06's business
	}
	tree, c := conv.Stmts(stmts)
	if c.Err != nil || len(tree) != len(prog) {
		return
	}
	var diffs []string
	for i := range prog {
		comparePos(prog[i], tree[i], fmt.Sprint("stmt", i), &diffs)
	}
	if len(diffs) > 0 {
		rk.Fail(t, slot, replay{Src: src, Part: "tree"}, "tree position differs from the token's byte offset: %s\nsource: %q", strings.Join(diffs[:minInt(len(diffs), 4)], "; "), src)
	}
	for _, r := range c.All {
		pos := int(r.P.Pos)
		if pos < 0 || pos > len(src) {
			rk.Fail(t, slot, replay{Src: src, Part: "tree"}, "%s.%s holds offset %d outside the source (len %d)\nsource: %q", r.Kind, r.What, pos, len(src), src)
		}
		ln, col := impl.LnCol(src, pos)
		if ln != r.P.Ln || col != r.P.Col {
			rk.Fail(t, slot, replay{Src: src, Part: "tree"}, "%s.%s at offset %d says %d:%d, the offset is at %d:%d\nsource: %q", r.Kind, r.What, pos, r.P.Ln, r.P.Col, ln, col, src)
		}
		l2, mb := lineInfo(src, pos)
		evid.Case(fmt.Sprintf("%s.%s/%v/%v", r.Kind, r.What, l2, mb), l2 || mb)
	}
}

func minInt(a, b int) int {
	if a < b {
		return a
	}
	return b
}

func TestTreePositions(t *testing.T) {
	p := gen.ProfileSyntax()
	rk.Check(t, "tree", 1, evid.Scale(2500, 30000), func(t *rapid.T) {
		prog := gen.Program(t, p)
		lay := gen.RandomLayout(t)
		src := gen.Print(prog, lay)
		checkTreePositions(t, "tree", prog, src)
		evid.Label("tree-programs")
		if lay.NL > 0 {
			evid.Sample(map[string]any{"part": "tree", "src": clip(src)})
		}
	})
}

func clip(s string) string {
	if len(s) > 200 {
		return s[:200] + "..."
	}
	return s
}

// ------------------------------------------------------------------ (ii) error positions

type fault struct {
	name string
	load bool
	// build returns the faulty statement
	build func(t *rapid.T) *gen.Node
}

func id(s string) *gen.Node  { return gen.NIdent(s) }
func i64(i int64) *gen.Node  { return gen.NInt(i) }
func str(s string) *gen.Node { return gen.NStr(s) }

// faulty expressions: each raises a run-time error when evaluated (prelude defines a=1, z=0, s="s", l=[1,2,3], m={"k":1})
var runFaultExprs = []struct {
	name string
	e    func() *gen.Node
}{
	{"str+int", func() *gen.Node { return gen.NBin("+", i64(1), str("a")) }},
	{"str-str", func() *gen.Node { return gen.NBin("-", id("s"), str("a")) }},
	{"list-index-range", func() *gen.Node { return gen.NIndex(id("l"), i64(7)) }},
	{"list-index-neg-range", func() *gen.Node { return gen.NIndex(id("l"), i64(-4)) }},
	{"list-index-type", func() *gen.Node { return gen.NIndex(id("l"), str("k")) }},
	{"map-index-type", func() *gen.Node { return gen.NIndex(id("m"), i64(1)) }},
	{"index-of-int", func() *gen.Node { return gen.NIndex(id("a"), i64(0)) }},
	{"div-zero", func() *gen.Node { return gen.NBin("/", id("a"), id("z")) }},
	{"mod-zero", func() *gen.Node { return gen.NBin("%", i64(5), id("z")) }},
	{"slice-step-zero", func() *gen.Node { return gen.NSlice(str("abc"), nil, nil, id("z"), true) }},
	{"slice-bound-type", func() *gen.Node { return gen.NSlice(id("l"), id("s"), nil, nil, false) }},
	{"slice-of-int", func() *gen.Node { return gen.NSlice(id("a"), i64(0), i64(1), nil, false) }},
	{"neg-str", func() *gen.Node { return gen.NUnary("-", id("s")) }},
	{"lt-str", func() *gen.Node { return gen.NBin("<", i64(1), id("s")) }},
	{"in-int", func() *gen.Node { return gen.NBin("in", i64(1), id("a")) }},
	{"in-str-lhs-int", func() *gen.Node { return gen.NBin("in", i64(1), id("s")) }},
	{"and-int", func() *gen.Node { return gen.NBin("&&", gen.NBool(true), i64(1)) }},
	{"map-key-int", func() *gen.Node { return gen.NMap(id("a"), i64(1)) }},
	{"map-key-in-expr", func() *gen.Node { return gen.NMap(gen.NBin("in", str("a"), str("ab")), i64(1)) }},
	{"map-key-cmp-expr", func() *gen.Node { return gen.NMap(gen.NBin("==", id("a"), i64(1)), i64(1)) }},
	{"load-json-bad", func() *gen.Node { return gen.NCall("load_json", str("{bad")) }},
	{"load-json-nonstr", func() *gen.Node { return gen.NCall("load_json", id("a")) }},
	{"nil+1", func() *gen.Node { return gen.NBin("+", id("undefined_name"), i64(1)) }},
	{"replace-bad-regex", func() *gen.Node { return gen.NCall("replace", id("message"), str("("), str("x")) }},
	{"url-decode-bad", func() *gen.Node { return gen.NCall("url_decode", str("%zz")) }},
	{"list*2", func() *gen.Node { return gen.NBin("*", id("l"), i64(2)) }},
}

var loadFaultExprs = []struct {
	name string
	e    func() *gen.Node
}{
	{"unknown-func", func() *gen.Node { return gen.NCall("nosuch", i64(1)) }},
	{"unknown-func-noargs", func() *gen.Node { return gen.NCall("nosuch2") }},
	{"len-argc", func() *gen.Node { return gen.NCall("len", id("l"), id("l")) }},
	{"load-json-argc", func() *gen.Node { return gen.NCall("load_json") }},
	{"get-key-kind", func() *gen.Node { return gen.NCall("get_key", i64(5)) }},
}

// wrappers place a faulty expression e into a statement.
var wrappers = []struct {
	name string
	w    func(e *gen.Node) *gen.Node
	rt   bool // usable for run-time faults (the expression is evaluated)
}{
	{"assign", func(e *gen.Node) *gen.Node { return gen.NSet("r", e) }, true},
	{"expr-stmt", func(e *gen.Node) *gen.Node { return e }, true},
	{"in-list", func(e *gen.Node) *gen.Node { return gen.NSet("r", gen.NList(i64(1), e)) }, true},
	{"in-map-value", func(e *gen.Node) *gen.Node { return gen.NSet("r", gen.NMap(str("k"), e)) }, true},
	{"in-paren", func(e *gen.Node) *gen.Node { return gen.NSet("r", gen.NBin("==", gen.NParen(e), i64(1))) }, true},
	{"len-arg", func(e *gen.Node) *gen.Node { return gen.NSet("r", gen.NCall("len", gen.NList(e))) }, true},
	{"add-key-arg", func(e *gen.Node) *gen.Node { return gen.NCall("add_key", id("k9"), e) }, true},
	{"if-cond", func(e *gen.Node) *gen.Node {
		return gen.NIf([]*gen.Node{e}, [][]*gen.Node{{gen.NSet("q", i64(1))}}, nil, false)
	}, true},
	{"elif-cond", func(e *gen.Node) *gen.Node {
		return gen.NIf([]*gen.Node{gen.NBool(false), e}, [][]*gen.Node{{}, {gen.NSet("q", i64(1))}}, []*gen.Node{gen.NSet("q", i64(2))}, true)
	}, true},
	{"for-cond", func(e *gen.Node) *gen.Node { return gen.NFor(nil, e, nil, []*gen.Node{gen.NBreak()}) }, true},
	{"for-init", func(e *gen.Node) *gen.Node {
		return gen.NFor(gen.NSet("j", e), gen.NBin("<", id("j"), i64(1)), gen.NSet("j", gen.NBin("+", id("j"), i64(1))), nil)
	}, true},
	{"for-loop-clause", func(e *gen.Node) *gen.Node {
		return gen.NFor(gen.NSet("j", i64(0)), gen.NBin("<", id("j"), i64(2)), gen.NSet("j", e), nil)
	}, true},
	{"forin-iter", func(e *gen.Node) *gen.Node { return gen.NForIn("q", gen.NList(e), nil) }, true},
	{"index-key", func(e *gen.Node) *gen.Node { return gen.NSet("r", gen.NIndex(id("l"), e)) }, true},
	{"slice-bound", func(e *gen.Node) *gen.Node { return gen.NSet("r", gen.NSlice(id("l"), gen.NParen(e), nil, nil, false)) }, true},
	{"assign-index-rhs", func(e *gen.Node) *gen.Node {
		return gen.NAssign("=", []*gen.Node{gen.NIndex(id("l"), i64(0))}, []*gen.Node{e})
	}, true},
	{"compound-rhs", func(e *gen.Node) *gen.Node { return gen.NAssign("+=", []*gen.Node{id("a")}, []*gen.Node{e}) }, true},
	{"unary-operand", func(e *gen.Node) *gen.Node { return gen.NSet("r", gen.NUnary("!", e)) }, true},
	{"binary-rhs", func(e *gen.Node) *gen.Node { return gen.NSet("r", gen.NBin("==", i64(1), e)) }, true},
	{"named-arg", func(e *gen.Node) *gen.Node {
		return gen.NCall("len", gen.NAssign("=", []*gen.Node{id("v")}, []*gen.Node{e}))
	}, false},
}

// statement-level faults
var stmtFaults = []struct {
	name string
	load bool
	s    func() *gen.Node
}{
	{"forin-int", false, func() *gen.Node { return gen.NForIn("q", id("a"), []*gen.Node{gen.NSet("w", i64(1))}) }},
	{"index-assign-range", false, func() *gen.Node {
		return gen.NAssign("=", []*gen.Node{gen.NIndex(id("l"), i64(9))}, []*gen.Node{i64(1)})
	}},
	{"index-assign-type", false, func() *gen.Node {
		return gen.NAssign("=", []*gen.Node{gen.NIndex(id("m"), i64(9))}, []*gen.Node{i64(1)})
	}},
	{"compound-str-int", false, func() *gen.Node { return gen.NAssign("-=", []*gen.Node{id("s")}, []*gen.Node{i64(1)}) }},
	{"compound-div-zero", false, func() *gen.Node { return gen.NAssign("/=", []*gen.Node{id("a")}, []*gen.Node{id("z")}) }},
	{"compound-index-mod-zero", false, func() *gen.Node {
		return gen.NAssign("%=", []*gen.Node{gen.NIndex(id("l"), i64(0))}, []*gen.Node{id("z")})
	}},
	{"url-decode-bad", false, func() *gen.Node { return gen.NCall("url_decode", id("badurl")) }},
	{"replace-bad-regexp", false, func() *gen.Node { return gen.NCall("replace", id("s"), str("("), str("x")) }},
	{"datetime-bad-format", false, func() *gen.Node { return gen.NCall("datetime", id("a"), str("s"), str("nope")) }},
	{"break-outside", true, func() *gen.Node { return gen.NBreak() }},
	{"continue-outside", true, func() *gen.Node { return gen.NContinue() }},
	{"add-key-argc", true, func() *gen.Node { return gen.NCall("add_key") }},
	{"add-key-argc3", true, func() *gen.Node { return gen.NCall("add_key", id("k"), i64(1), i64(2)) }},
	{"cast-type", true, func() *gen.Node { return gen.NCall("cast", id("k"), str("zzz")) }},
	{"cast-kind", true, func() *gen.Node { return gen.NCall("cast", id("k"), id("k2")) }},
	{"rename-kind", true, func() *gen.Node { return gen.NCall("rename", id("k"), str("old")) }},
	{"grok-unknown-pattern", true, func() *gen.Node { return gen.NCall("grok", id("_"), str("%{NOSUCHPATTERN:x}")) }},
	{"use-kind", true, func() *gen.Node { return gen.NCall("use", id("k")) }},
	{"use-missing", true, func() *gen.Node { return gen.NCall("use", str("nosuch.p")) }},
	{"use-empty-name", true, func() *gen.Node { return gen.NCall("use", str("")) }},
	{"use-blank-name", true, func() *gen.Node { return gen.NCall("use", str("  ")) }},
	{"use-itself", true, func() *gen.Node { return gen.NCall("use", str("c17.p")) }},
	{"trim-kind", true, func() *gen.Node { return gen.NCall("trim", id("k"), i64(1)) }},
	{"set-measurement-kind", true, func() *gen.Node { return gen.NCall("set_measurement", id("k"), str("x")) }},
	{"map-key-literal-int", true, func() *gen.Node { return gen.NSet("r", gen.NMap(i64(1), i64(2))) }},
	{"strfmt-kind", true, func() *gen.Node { return gen.NCall("strfmt", id("k"), id("f")) }},
}

func benign(t *rapid.T) *gen.Node {
	switch rapid.IntRange(0, 6).Draw(t, "benign") {
	case 0:
		return gen.NSet("b1", i64(int64(rapid.IntRange(0, 9).Draw(t, "n"))))
	case 1:
		return gen.NSet("b2", str("é"+rapid.SampledFrom([]string{"", "x", "注"}).Draw(t, "s")))
	case 2:
		return gen.NCall("add_key", id("b3"), gen.NBin("+", id("a"), i64(1)))
	case 3:
		return gen.NSet("b4", gen.NList(i64(1), str("two")))
	case 4:
		return gen.NSet("b5", gen.NIndex(id("l"), i64(-1)))
	case 5:
		return gen.NIf([]*gen.Node{gen.NBin("==", id("a"), i64(2))}, [][]*gen.Node{{gen.NSet("never", i64(1))}}, nil, false)
	default:
		return gen.NCall("len", id("s"))
	}
}

// nest places stmt at a random reachable position inside nested blocks. inLoop tells whether break/continue would be legal.
func nest(t *rapid.T, stmt *gen.Node, depth int, allowLoop bool) ([]*gen.Node, int) {
	var before, after []*gen.Node
	for i, n := 0, rapid.IntRange(0, 2).Draw(t, "nbefore"); i < n; i++ {
		before = append(before, benign(t))
	}
	for i, n := 0, rapid.IntRange(0, 2).Draw(t, "nafter"); i < n; i++ {
		after = append(after, benign(t))
	}
	inner := stmt
	d := 0
	if depth > 0 {
		kinds := 4
		if allowLoop {
			kinds = 7
		}
		k := rapid.IntRange(0, kinds-1).Draw(t, "nestkind")
		body, dd := nest(t, stmt, depth-1, allowLoop)
		d = dd + 1
		switch k {
		case 0:
			inner = gen.NIf([]*gen.Node{gen.NBool(true)}, [][]*gen.Node{body}, nil, false)
		case 1:
			inner = gen.NIf([]*gen.Node{gen.NBin("==", id("a"), i64(0))}, [][]*gen.Node{{benign(t)}}, body, true)
		case 2:
			inner = gen.NIf([]*gen.Node{id("z"), gen.NBin("in", str("s"), id("s"))}, [][]*gen.Node{{}, body}, []*gen.Node{benign(t)}, true)
		case 3:
			inner = gen.NIf([]*gen.Node{gen.NBool(false), gen.NNil()}, [][]*gen.Node{{}, {}}, body, true)
		case 4:
			inner = gen.NForIn("it", id("l"), body)
		case 5:
			inner = gen.NFor(gen.NSet("n", i64(0)), gen.NBin("<", id("n"), i64(2)), gen.NSet("n", gen.NBin("+", id("n"), i64(1))), body)
		default:
			inner = gen.NForIn("ch", str("é!"), body)
		}
	}
	out := append(before, inner)
	out = append(out, after...)
	return out, d
}

var prelude = func() []*gen.Node {
	return []*gen.Node{
		gen.NSet("a", i64(1)), gen.NSet("z", i64(0)), gen.NSet("s", str("s")),
		gen.NSet("l", gen.NList(i64(1), i64(2), i64(3))), gen.NSet("m", gen.NMap(str("k"), i64(1))),
		gen.NSet("badurl", str("%zz")),
	}
}

func checkChain(t rk.Failer, slot string, rp replay, pe *errchain.PlError, src string, span [2]int, what string) {
	if pe == nil {
		rk.Fail(t, slot, rp, "%s: error is not a positioned script error", what)
	}
	if len(pe.PosChain) == 0 {
		rk.Fail(t, slot, rp, "%s: error %q carries no position", what, pe.Err)
	}
	for i, p := range pe.PosChain {
		if p.File != "c17.p" {
			rk.Fail(t, slot, rp, "%s: chain[%d] names %q, want the script name", what, i, p.File)
		}
		if p.Pos < 0 || p.Pos >= len(src) {
			rk.Fail(t, slot, rp, "%s: chain[%d] offset %d (%d:%d) is not inside the source (len %d); error %q\nsource: %q", what, i, p.Pos, p.Ln, p.Col, len(src), pe.Err, src)
		}
		if p.Pos < span[0] || p.Pos >= span[1] {
			rk.Fail(t, slot, rp, "%s: chain[%d] offset %d lies outside the statement at fault [%d,%d) = %q; error %q\nsource: %q", what, i, p.Pos, span[0], span[1], src[span[0]:span[1]], pe.Err, src)
		}
		ln, col := impl.LnCol(src, p.Pos)
		if ln != p.Ln || col != p.Col {
			rk.Fail(t, slot, rp, "%s: chain[%d] offset %d says %d:%d, the offset is at %d:%d", what, i, p.Pos, p.Ln, p.Col, ln, col)
		}
	}
	txt := pe.Error()
	first := fmt.Sprintf("c17.p:%d:%d: %s", pe.PosChain[0].Ln, pe.PosChain[0].Col, pe.Err)
	if !strings.HasPrefix(txt, first) {
		rk.Fail(t, slot, rp, "%s: Error() = %q does not start with %q", what, txt, first)
	}
}

var call1, check1 = impl.FuncTables(nil, nil)

func runFaultCase(t rk.Failer, slot string, src string, span [2]int, name string, load bool, depth int, nontrivialKey string) {
	rp := replay{Src: src, Part: "error", Fault: name, Span: span, Load: load}
	s, lerr, crash := impl.Load1("c17.p", src, call1, check1)
	if crash != nil {
		rk.Fail(t, slot, rp, "loader panicked on fault %s: %s\nsource: %q", name, crash.Value, src)
	}
	if load {
		if lerr == nil {
			evid.Discard("load-fault-accepted:" + name)
			return // whether it must be rejected is C08's business
		}
		checkChain(t, slot, rp, impl.PlErr(lerr), src, span, "load error for "+name)
	} else {
		if lerr != nil {
			rk.Fail(t, slot, rp, "harness: run-time fault program rejected at load: %v\nsource: %q", lerr, src)
		}
		pt := impl.NewPoint("m", map[string]string{"tg": "v"}, map[string]any{"message": "hello", "f1": int64(3)})
		rerr, crash := impl.RunV1(s, pt, nil)
		if crash != nil {
			return // C01's business
		}
		if rerr == nil {
			evid.Discard("run-fault-no-error:" + name)
			return // whether it must be an error is C02/C04/C11's business
		}
		checkChain(t, slot, rp, rerr, src, span, "run error for "+name)
		// the same loaded script once more on an equal point: the same report; and the report of the first run is
		// still what it was (an error value belongs to the run that returned it)
		first := rerr.Error()
		firstN := len(rerr.PosChain)
		pt2 := impl.NewPoint("m", map[string]string{"tg": "v"}, map[string]any{"message": "hello", "f1": int64(3)})
		rerr2, crash2 := impl.RunV1(s, pt2, nil)
		if crash2 == nil {
			if rerr2 == nil {
				rk.Fail(t, slot, rp, "second run of the loaded script on an equal point gives no error, the first gave %q\nsource: %q", first, src)
			}
			if rerr2.Error() != first || len(rerr2.PosChain) != firstN {
				rk.Fail(t, slot, rp, "second run of the loaded script on an equal point reports %q (%d positions), the first reported %q (%d positions)\nsource: %q", rerr2.Error(), len(rerr2.PosChain), first, firstN, src)
			}
			if rerr.Error() != first || len(rerr.PosChain) != firstN {
				rk.Fail(t, slot, rp, "the error returned by the first run changed while the script ran again: %q -> %q\nsource: %q", first, rerr.Error(), src)
			}
		}
	}
	evid.Case(nontrivialKey, depth > 0, "error-position/"+map[bool]string{true: "load", false: "run"}[load])
}

// runFaultCaseV2 is the v2 counterpart for run-time faults (v2 has no point and only the probe function table).
func runFaultCaseV2(t rk.Failer, slot string, src string, span [2]int, name string, depth int, key string) {
	rp := replay{Src: src, Part: "error-v2", Fault: name, Span: span}
	s, lerr, crash := impl.LoadV2("c17.p", src, sem.V2Fns())
	if crash != nil {
		rk.Fail(t, slot, rp, "v2 loader panicked on fault %s: %s\nsource: %q", name, crash.Value, src)
	}
	if lerr != nil {
		return // not a v2 program (uses a v1-only builtin)
	}
	rerr, crash := impl.RunV2(s, nil)
	if crash != nil || rerr == nil {
		if rerr == nil && crash == nil {
			evid.Discard("v2-run-fault-no-error:" + name)
		}
		return
	}
	checkChain(t, slot, rp, rerr, src, span, "v2 run error for "+name)
	evid.Case("v2/"+key, depth > 0, "error-position/run-v2")
}

// TestHostFunctionArgumentErrorsV2: errors a v2 host function reports about one of its parameters - a typed getter that
// refuses the value - carry a position inside the call, whether the argument was written (by position, by name) or left
// out so that the declared default is what the getter refuses.
func TestHostFunctionArgumentErrorsV2(t *testing.T) {
	type getter struct {
		name string
		get  func(ctx *runtimev2.Task, e *ast.CallExpr, ps []*runtimev2.Param, i int) *errchain.PlError
	}
	getters := []getter{
		{"GetParamInt", func(c *runtimev2.Task, e *ast.CallExpr, ps []*runtimev2.Param, i int) *errchain.PlError { _, err := runtimev2.GetParamInt(c, e, ps, i); return err }},
		{"GetParamFloat", func(c *runtimev2.Task, e *ast.CallExpr, ps []*runtimev2.Param, i int) *errchain.PlError { _, err := runtimev2.GetParamFloat(c, e, ps, i); return err }},
		{"GetParamBool", func(c *runtimev2.Task, e *ast.CallExpr, ps []*runtimev2.Param, i int) *errchain.PlError { _, err := runtimev2.GetParamBool(c, e, ps, i); return err }},
		{"GetParamString", func(c *runtimev2.Task, e *ast.CallExpr, ps []*runtimev2.Param, i int) *errchain.PlError { _, err := runtimev2.GetParamString(c, e, ps, i); return err }},
		{"GetParamList", func(c *runtimev2.Task, e *ast.CallExpr, ps []*runtimev2.Param, i int) *errchain.PlError { _, err := runtimev2.GetParamList(c, e, ps, i); return err }},
		{"GetParamMap", func(c *runtimev2.Task, e *ast.CallExpr, ps []*runtimev2.Param, i int) *errchain.PlError { _, err := runtimev2.GetParamMap(c, e, ps, i); return err }},
	}
	defaults := []struct {
		name string
		v    func() any
	}{
		{"nil", func() any { return nil }}, {"int64", func() any { return int64(2) }}, {"float64", func() any { return 1.5 }}, {"string", func() any { return "s" }},
		{"bool", func() any { return true }}, {"list", func() any { return []any{int64(1)} }}, {"map", func() any { return map[string]any{"k": int64(1)} }}, {"int32", func() any { return int32(7) }},
	}
	calls := []string{"f(5)", "f(5, factor = {\"k\": [1]})", "f(a = 5)", "f(5, nil)", "y = [1, f(5)]", "if f(5) { }"}
	n, errs := 0, 0
	for _, g := range getters {
		for _, d := range defaults {
			g, d := g, d
			params := []*runtimev2.Param{{Name: "a"}, {Name: "factor", Val: d.v}}
			fn := &runtimev2.Fn{
				CallCheck: func(ctx *runtimev2.Task, e *ast.CallExpr) *errchain.PlError { return runtimev2.CheckPassParam(ctx, e, params) },
				Call: func(ctx *runtimev2.Task, e *ast.CallExpr) *errchain.PlError {
					if err := g.get(ctx, e, params, 1); err != nil {
						return err
					}
					ctx.Regs.ReturnAppend(runtimev2.V{V: true, T: ast.Bool})
					return nil
				},
				Desc: runtimev2.FnDesc{Name: "f", Params: params},
			}
			for ci, call := range calls {
				src := "x = 1\n  " + call + "\nz = 3"
				span := [2]int{strings.Index(src, call), strings.Index(src, call) + len(call)}
				rp := replay{Src: src, Part: "error-v2-host", Fault: g.name + " on default " + d.name, Span: span}
				s, lerr, crash := impl.LoadV2("c17.p", src, map[string]*runtimev2.Fn{"f": fn})
				if crash != nil || lerr != nil {
					rk.Fail(t, "host-arg-errors", rp, "harness: %q does not load: %v %v", src, lerr, crash)
				}
				rerr, crash := impl.RunV2(s, nil)
				if crash != nil {
					rk.Fail(t, "host-arg-errors", rp, "v2 run crashed: %s\nsource: %q", crash.Value, src)
				}
				n++
				if rerr == nil {
					continue // the getter accepts this value
				}
				errs++
				checkChain(t, "host-arg-errors", rp, rerr, src, span, "v2 error of "+g.name+" (declared default: "+d.name+")")
				evid.Case(fmt.Sprintf("hostargerr/%s/%s/%d", g.name, d.name, ci), true, "error-position/v2-host-function-argument")
			}
		}
	}
	evid.Extra("host_argument_errors_checked", errs)
	evid.Exhaustive("typed getter x declared default x call shape (argument written / named / omitted)", n)
}

func TestErrorPositions(t *testing.T) {
	rk.Check(t, "errors", 2, evid.Scale(3000, 30000), func(t *rapid.T) {
		var stmt *gen.Node
		var name string
		var load bool
		switch rapid.IntRange(0, 3).Draw(t, "class") {
		case 0, 1:
			f := runFaultExprs[rapid.IntRange(0, len(runFaultExprs)-1).Draw(t, "fault")]
			var w = wrappers[rapid.IntRange(0, len(wrappers)-1).Draw(t, "wrap")]
			for !w.rt {
				w = wrappers[rapid.IntRange(0, len(wrappers)-1).Draw(t, "wrap")]
			}
			stmt, name = w.w(f.e()), f.name+"@"+w.name
		case 2:
			f := loadFaultExprs[rapid.IntRange(0, len(loadFaultExprs)-1).Draw(t, "fault")]
			w := wrappers[rapid.IntRange(0, len(wrappers)-1).Draw(t, "wrap")]
			stmt, name, load = w.w(f.e()), f.name+"@"+w.name, true
		default:
			f := stmtFaults[rapid.IntRange(0, len(stmtFaults)-1).Draw(t, "fault")]
			stmt, name, load = f.s(), f.name, f.load
		}
		allowLoop := !(stmt.Kind == gen.Break || stmt.Kind == gen.Continue)
		depth := rapid.IntRange(0, 3).Draw(t, "depth")
		body, d := nest(t, stmt, depth, allowLoop)
		prog := gen.FixAll(append(prelude(), body...))
		lay := gen.RandomLayout(t)
		src := gen.Print(prog, lay)
		span := [2]int{stmt.P.Start, stmt.P.End}
		runFaultCase(t, "errors", src, span, name, load, d, fmt.Sprintf("%s/%d/%v", name, d, lay.NL > 0))
		if !load && !strings.Contains(src, "add_key") && !strings.Contains(src, "load_json") && !strings.Contains(src, "undefined_name") {
			runFaultCaseV2(t, "errors", src, span, name, d, fmt.Sprintf("%s/%d/%v", name, d, lay.NL > 0))
		}
		if d > 0 {
			evid.Sample(map[string]any{"part": "error", "fault": name, "src": clip(src), "statement": src[span[0]:span[1]]})
		}
	})
}

// TestErrorPositionTable enumerates every (fault, wrapper) pair once at top level and once nested.
func TestErrorPositionTable(t *testing.T) {
	n := 0
	run := func(stmt func() *gen.Node, name string, load bool) {
		for nestd := 0; nestd < 2; nestd++ {
			s := stmt()
			body := []*gen.Node{s}
			if nestd == 1 {
				if s.Kind == gen.Break || s.Kind == gen.Continue {
					body = []*gen.Node{gen.NIf([]*gen.Node{gen.NBool(true)}, [][]*gen.Node{{s}}, nil, false)}
				} else {
					body = []*gen.Node{gen.NForIn("it", id("l"), []*gen.Node{gen.NIf([]*gen.Node{gen.NBool(true)}, [][]*gen.Node{{s}}, nil, false)})}
				}
			}
			prog := gen.FixAll(append(prelude(), body...))
			for li, lay := range []gen.Layout{gen.Minimal{}, &gen.Choices{C: []int{7, 2, 9, 4, 11, 1}}, gen.Broken{}} {
				src := gen.Print(prog, lay)
				runFaultCase(t, "errtable", src, [2]int{s.P.Start, s.P.End}, name, load, nestd, fmt.Sprintf("table/%s/%d/%d", name, nestd, li))
				if !load && !strings.Contains(src, "add_key") && !strings.Contains(src, "load_json") && !strings.Contains(src, "undefined_name") {
					runFaultCaseV2(t, "errtable", src, [2]int{s.P.Start, s.P.End}, name, nestd, fmt.Sprintf("table/%s/%d/%d", name, nestd, li))
				}
				n++
			}
		}
	}
	for _, f := range runFaultExprs {
		for _, w := range wrappers {
			if !w.rt {
				continue
			}
			f, w := f, w
			run(func() *gen.Node { return w.w(f.e()) }, f.name+"@"+w.name, false)
		}
	}
	for _, f := range loadFaultExprs {
		for _, w := range wrappers {
			f, w := f, w
			run(func() *gen.Node { return w.w(f.e()) }, f.name+"@"+w.name, true)
		}
	}
	for _, f := range stmtFaults {
		run(f.s, f.name, f.load)
	}
	evid.Exhaustive("fault-x-wrapper-table", n)
}

// TestLargeTexts: positions far into a text - beyond 255 / 65535 lines, beyond column 255 / 65535, after thousands
// of multi-byte characters, with CR LF line ends: parse, load and run errors at the end of such a text, the
// positions of the last statement's tree, and the lookup routines at sampled offsets.
func TestLargeTexts(t *testing.T) {
	prefixes := []struct{ name, text string }{
		{"300-lines", strings.Repeat("a = 1\n", 300)},
		{"70000-lines", strings.Repeat("a = 1\n", 70000)},
		{"long-line-300", "a = \"" + strings.Repeat("x", 300) + "\"; "},
		{"long-line-70000", "a = \"" + strings.Repeat("x", 70000) + "\"; "},
		{"multibyte-lines", strings.Repeat("é = \"注👍\" # é注👍\n", 5000)},
		{"crlf-lines", strings.Repeat("a = 1\r\n", 3000)},
		{"comment-lines", strings.Repeat("# only a comment\n", 70000)},
		{"blank-lines", strings.Repeat("\n", 66000) + strings.Repeat(" ", 300)},
		{"long-multibyte-line", "a = \"" + strings.Repeat("注", 30000) + "\"; "},
	}
	n := 0
	for pi, pf := range prefixes {
		if pi%evid.NShards() != evid.Shard() {
			continue
		}
		// a parse error at the very end
		{
			src := pf.text + "y = = 2"
			at := len(pf.text) + 4
			_, err, crash := impl.Parse("c17.p", src)
			rp := replay{Src: src, Part: "parse-error", Span: [2]int{at, at + 1}}
			pe := impl.PlErr(err)
			if crash != nil || pe == nil || len(pe.PosChain) == 0 {
				rk.Fail(t, "large", rp, "%s: parse error expected at offset %d, got %v %v", pf.name, at, err, crash)
			}
			ln, col := impl.LnCol(src, at)
			if p := pe.PosChain[0]; p.Pos != at || p.Ln != ln || p.Col != col {
				rk.Fail(t, "large", rp, "%s: parse error located at offset %d (%d:%d), the offending token is at offset %d (%d:%d)", pf.name, p.Pos, p.Ln, p.Col, at, ln, col)
			}
		}
		// load and run errors at the very end
		for _, f := range []struct {
			stmt string
			load bool
		}{{"nosuch(1)", true}, {"y = 1 + \"s\"", false}, {"l = [1]\nz = l[5]", false}} {
			src := pf.text + f.stmt
			start := len(pf.text)
			if i := strings.LastIndex(f.stmt, "\n"); i >= 0 {
				start += i + 1
			}
			runFaultCase(t, "large", src, [2]int{start, len(src)}, pf.name+"/"+f.stmt, f.load, 1, "large/"+pf.name+"/"+f.stmt)
			n++
		}
		// tree positions of a last statement with brackets
		{
			tail := "zz = [1, {\"k\": f(a, b)}]"
			src := pf.text + tail
			stmts, err, crash := impl.Parse("c17.p", src)
			if err != nil || crash != nil || len(stmts) == 0 {
				rk.Fail(t, "large", replay{Src: src, Part: "tree"}, "%s: valid text not parsed: %v %v", pf.name, err, crash)
			}
			last := stmts[len(stmts)-1]
			sp := last.StartPos()
			want := len(pf.text)
			ln, col := impl.LnCol(src, want)
			if int(sp.Pos) != want || sp.Ln != ln || sp.Col != col {
				rk.Fail(t, "large", replay{Src: src, Part: "tree", Span: [2]int{want, len(src)}}, "%s: last statement starts at offset %d (%d:%d), the tree says %d (%d:%d)", pf.name, want, ln, col, sp.Pos, sp.Ln, sp.Col)
			}
		}
		// lookup routines at sampled offsets
		{
			src := pf.text + "end"
			pc := token.NewPosCache(src)
			for _, p := range []int{0, 1, 255, 256, 257, 65535, 65536, 65537, len(src) / 2, len(src) - 4, len(src) - 1, len(src)} {
				if p < 0 || p > len(src) {
					continue
				}
				ln, col := impl.LnCol(src, p)
				got := pc.LnCol(token.Pos(p))
				l2, c2, err := token.LnCol(src, token.Pos(p))
				if got.Ln != ln || got.Col != col || err != nil || l2 != ln || c2 != col {
					rk.Fail(t, "large", replay{Src: src, Part: "lookup", Span: [2]int{p, p}}, "%s: lookup routines disagree at offset %d: PosCache %d:%d, LnCol %d:%d (err %v), want %d:%d", pf.name, p, got.Ln, got.Col, l2, c2, err, ln, col)
				}
				n++
			}
		}
		evid.Case("large/"+pf.name, true, "large-text")
	}
	evid.Exhaustive("large texts x {parse, load, run error at the end; tree start; lookup routines}", n)
}

// TestParseErrorPositionTable: parse errors whose offending construct is known: the reported position lies inside
// the statement at fault (never before the text or past it), with line and column matching the offset.
func TestParseErrorPositionTable(t *testing.T) {
	type tc struct{ pre, stmt, post string }
	var cases []tc
	for _, lit := range []string{"2.5", "\"s\"", "[1]", "1e3", "-2.5", "{}"} {
		for _, form := range []string{"r = a[%s:]", "r = a[:%s]", "r = a[::%s]", "r = a[1::%s]", "r = a[1:2:%s]", "r = \"abc\"[::%s]", "r = f()[1::%s]", "r = a[%s::]"} {
			st := fmt.Sprintf(form, lit)
			cases = append(cases, tc{"", st, ""}, tc{"a = [1, 2]\n", st, "\nb = 2"}, tc{"a = 1\nif a {\n  é = \"注\"\n  ", st, "\n}\n"})
		}
	}
	for _, st := range []string{"x = 1 / 0", "x = 1 % 0", "x = = 2", "x = (1 +", "f(a=)", "x = [1, 2", "x = \"unterminated", "x = 1e", "x = 0x", "if { }", "for x in { }", "a[", "x = a[1:2:3:4]", "x = 1 @ 2"} {
		cases = append(cases, tc{"", st, ""}, tc{"a = [1, 2]\n# c é\n", st, "\nb = 2"})
	}
	n := 0
	for _, c := range cases {
		src := c.pre + c.stmt + c.post
		lo, hi := len(c.pre), len(c.pre)+len(c.stmt)
		_, err, crash := impl.Parse("c17.p", src)
		rp := replay{Src: src, Part: "parse-error", Span: [2]int{lo, hi}}
		if crash != nil {
			rk.Fail(t, "parse-table", rp, "parser panicked: %s", crash.Value)
		}
		if err == nil {
			evid.Discard("parse-fault-accepted")
			continue
		}
		pe := impl.PlErr(err)
		if pe == nil || len(pe.PosChain) == 0 {
			rk.Fail(t, "parse-table", rp, "parse error without a position: %v\nsource: %q", err, src)
		}
		p := pe.PosChain[0]
		// an error that needs the next token to be noticed may sit on that token: allow up to the end of the line after the statement
		end := hi
		if i := strings.IndexByte(src[hi:], '\n'); i >= 0 && hi+i+1 <= len(src) {
			end = hi + i + 1
			if j := strings.IndexByte(src[end:], '\n'); j >= 0 {
				end += j
			} else {
				end = len(src)
			}
		}
		if p.Pos < lo || p.Pos > end {
			rk.Fail(t, "parse-table", rp, "parse error %q is located at offset %d (%d:%d), the statement at fault is %q at [%d,%d)\nsource: %q", pe.Err, p.Pos, p.Ln, p.Col, c.stmt, lo, hi, src)
		}
		ln, col := impl.LnCol(src, p.Pos)
		if ln != p.Ln || col != p.Col {
			rk.Fail(t, "parse-table", rp, "parse error at offset %d says %d:%d, the offset is at %d:%d", p.Pos, p.Ln, p.Col, ln, col)
		}
		evid.Case("parse-table/"+src, true, "parse-error-position")
		n++
	}
	evid.Exhaustive("statements with a known parse fault x contexts", n)
}

// ------------------------------------------------------------------ (iii) lookup routines

func TestLookupRoutinesExhaustive(t *testing.T) {
	alpha := []string{"a", "\n", "é", "\r", "\u2028"}
	n := 0
	var rec func(s string, d int)
	rec = func(s string, d int) {
		pc := token.NewPosCache(s)
		for p := 0; p <= len(s); p++ {
			ln, col := impl.LnCol(s, p)
			got := pc.LnCol(token.Pos(p))
			l2, c2, err := token.LnCol(s, token.Pos(p))
			rp := replay{Src: s, Part: "lookup", Span: [2]int{p, p}}
			if got.Ln != ln || got.Col != col || int(got.Pos) != p {
				rk.Fail(t, "lookup", rp, "PosCache.LnCol(%d) on %q = %d:%d (pos %d), want %d:%d", p, s, got.Ln, got.Col, got.Pos, ln, col)
			}
			if err != nil || l2 != ln || c2 != col {
				rk.Fail(t, "lookup", rp, "token.LnCol(%q, %d) = %d:%d err=%v, want %d:%d", s, p, l2, c2, err, ln, col)
			}
			n++
			evid.Case(fmt.Sprintf("%q@%d", s, p), ln > 1 || strings.Contains(s[:p], "é"), "lookup")
		}
		// out-of-range offsets are refused by both
		for _, p := range []int{-1, len(s) + 1} {
			if got := pc.LnCol(token.Pos(p)); got != token.InvalidLnColPos {
				rk.Fail(t, "lookup", replay{Src: s, Part: "lookup", Span: [2]int{p, p}}, "PosCache.LnCol(%d) on %q accepted an offset outside the text: %+v", p, s, got)
			}
			if _, _, err := token.LnCol(s, token.Pos(p)); err == nil {
				rk.Fail(t, "lookup", replay{Src: s, Part: "lookup", Span: [2]int{p, p}}, "token.LnCol(%q,%d) accepted an offset outside the text", s, p)
			}
		}
		if d == 6 {
			return
		}
		for _, a := range alpha {
			rec(s+a, d+1)
		}
	}
	rec("", 0)
	evid.Exhaustive("texts-len<=6-over-{a,LF,é,CR,U+2028}-x-offsets", n)
}

func TestLookupRoutinesRandom(t *testing.T) {
	rk.Check(t, "lookup-random", 3, evid.Scale(2000, 30000), func(t *rapid.T) {
		s := rapid.StringOfN(rapid.RuneFrom([]rune("ab \n\n\r\té注👍#\u2028\u2029\u0085\v\f")), 0, 200, -1).Draw(t, "text")
		pc := token.NewPosCache(s)
		for i := 0; i < 8; i++ {
			p := rapid.IntRange(0, len(s)).Draw(t, "pos")
			ln, col := impl.LnCol(s, p)
			got := pc.LnCol(token.Pos(p))
			l2, c2, err := token.LnCol(s, token.Pos(p))
			if got.Ln != ln || got.Col != col || err != nil || l2 != ln || c2 != col {
				rk.Fail(t, "lookup-random", replay{Src: s, Part: "lookup", Span: [2]int{p, p}}, "lookup routines disagree at offset %d of %q: PosCache %d:%d, LnCol %d:%d (err %v), want %d:%d", p, s, got.Ln, got.Col, l2, c2, err, ln, col)
			}
			evid.Case(fmt.Sprintf("r%q@%d", s, p), ln > 1, "lookup-random")
		}
	})
}

// ------------------------------------------------------------------ (iv) error chains

func TestErrorChains(t *testing.T) {
	rk.Check(t, "chains", 4, evid.Scale(2000, 20000), func(t *rapid.T) {
		n := rapid.IntRange(1, 9).Draw(t, "n")
		renderEarly := rapid.Bool().Draw(t, "render-while-building")
		type pos struct {
			file string
			p    token.LnColPos
		}
		var ps []pos
		for i := 0; i < n; i++ {
			ps = append(ps, pos{
				file: rapid.SampledFrom([]string{"a.p", "b.ppl", "dir/c.p", "é.p", "x y.p"}).Draw(t, "file"),
				p:    token.LnColPos{Pos: token.Pos(rapid.IntRange(0, 5000).Draw(t, "pos")), Ln: rapid.IntRange(1, 300).Draw(t, "ln"), Col: rapid.IntRange(1, 200).Draw(t, "col")},
			})
		}
		msg := rapid.SampledFrom([]string{"boom", "unsupported func: `x`", "a: b: c", "line1\nline2", "", "é \"q\""}).Draw(t, "msg")
		e := errchain.NewErr(ps[0].file, ps[0].p, msg)
		for _, p := range ps[1:] {
			if renderEarly {
				_ = e.Error() // a host that logs the error at every level: rendering is an observation, it changes nothing
				_, _ = json.Marshal(e)
			}
			e = e.ChainAppend(p.file, p.p)
		}
		rp := replay{Part: "chain", Src: fmt.Sprint(ps, msg)}
		want := fmt.Sprintf("%s:%d:%d: %s", ps[0].file, ps[0].p.Ln, ps[0].p.Col, msg)
		for _, p := range ps[1:] {
			want += fmt.Sprintf("\n%s:%d:%d:", p.file, p.p.Ln, p.p.Col)
		}
		if got := e.Error(); got != want {
			rk.Fail(t, "chains", rp, "Error() = %q, want %q", got, want)
		}
		if len(e.PosChain) != n {
			rk.Fail(t, "chains", rp, "chain has %d positions, want %d", len(e.PosChain), n)
		}
		for i, p := range ps {
			c := e.PosChain[i]
			if c.File != p.file || c.Ln != p.p.Ln || c.Col != p.p.Col || c.Pos != int(p.p.Pos) {
				rk.Fail(t, "chains", rp, "chain[%d] = %+v, want %+v", i, c, p)
			}
		}
		// JSON round trip is the identity
		b, err := json.Marshal(e)
		if err != nil {
			rk.Fail(t, "chains", rp, "json.Marshal: %v", err)
		}
		var back errchain.PlError
		if renderEarly {
			// decoding into a value that held (and rendered) another error before
			back = *errchain.NewErr("old.p", token.LnColPos{Pos: 3, Ln: 1, Col: 4}, "an earlier error")
			_ = back.Error()
		}
		if err := json.Unmarshal(b, &back); err != nil {
			rk.Fail(t, "chains", rp, "json.Unmarshal: %v", err)
		}
		if back.Error() != e.Error() || back.Err != e.Err || len(back.PosChain) != len(e.PosChain) {
			rk.Fail(t, "chains", rp, "JSON round trip changed the error: %q -> %q (%s)", e.Error(), back.Error(), b)
		}
		for i := range e.PosChain {
			if back.PosChain[i] != e.PosChain[i] {
				rk.Fail(t, "chains", rp, "JSON round trip changed chain[%d]: %+v -> %+v", i, e.PosChain[i], back.PosChain[i])
			}
		}
		// appending to a copy never alters the original (also when two copies are extended)
		before := e.Error()
		beforeN := len(e.PosChain)
		c1 := e.Copy().ChainAppend("outer1.p", token.LnColPos{Pos: 1, Ln: 1, Col: 2})
		c2 := e.Copy().ChainAppend("outer2.p", token.LnColPos{Pos: 7, Ln: 2, Col: 3})
		if e.Error() != before || len(e.PosChain) != beforeN {
			rk.Fail(t, "chains", rp, "appending to a copy altered the original: %q -> %q", before, e.Error())
		}
		if len(c1.PosChain) != n+1 || len(c2.PosChain) != n+1 || c1.PosChain[n].File != "outer1.p" || c2.PosChain[n].File != "outer2.p" {
			rk.Fail(t, "chains", rp, "copies share state: c1=%q c2=%q", c1.Error(), c2.Error())
		}
		if c1.Err != msg || c2.Err != msg {
			rk.Fail(t, "chains", rp, "copy lost the message")
		}
		evid.Case(fmt.Sprintf("chain/%d/%v", n, strings.Contains(msg, "\n")), n > 1, "chain")
	})
}

// ------------------------------------------------------------------ replays

func TestReplays(t *testing.T) {
	files, _ := filepath.Glob(filepath.Join(evid.Dir(), "replays", prop, "*.json"))
	if r := os.Getenv("VERIF_REPLAY"); r != "" {
		files = []string{r}
	}
	for _, f := range files {
		b, err := os.ReadFile(f)
		if err != nil {
			continue
		}
		var r struct {
			Case replay `json:"case"`
		}
		if json.Unmarshal(b, &r) != nil {
			continue
		}
		c := r.Case
		t.Run(filepath.Base(f), func(t *testing.T) {
			switch c.Part {
			case "error":
				runFaultCase(t, "replay", c.Src, c.Span, c.Fault, c.Load, 1, "replay/"+c.Src)
			case "error-v2":
				runFaultCaseV2(t, "replay", c.Src, c.Span, c.Fault, 1, "replay/"+c.Src)
			case "tree":
				// re-derive the token offsets by printing is impossible from text alone: check Ln/Col consistency and in-range offsets
				stmts, err, crash := impl.Parse("c17.p", c.Src)
				if crash != nil || err != nil {
					return
				}
				_, cv := conv.Stmts(stmts)
				for _, r := range cv.All {
					pos := int(r.P.Pos)
					ln, col := impl.LnCol(c.Src, pos)
					if pos < 0 || pos > len(c.Src) || ln != r.P.Ln || col != r.P.Col {
						rk.Fail(t, "replay", c, "%s.%s holds %d (%d:%d), inconsistent with the source", r.Kind, r.What, pos, r.P.Ln, r.P.Col)
					}
					checkKnownTokens(t, c, r)
				}
				evid.Case("replay/"+c.Src, true, "replay")
			}
		})
	}
}

// checkKnownTokens: for keyword-positioned fields the token text at the offset is known.
func checkKnownTokens(t rk.Failer, c replay, r conv.PosRec) {
	want := map[string]string{"ForStmt.ForPos": "for", "ForInStmt.ForPos": "for", "ForInStmt.InPos": "in", "IfelseStmt.ElsePos": "else",
		"BreakStmt.Start": "break", "ContinueStmt.Start": "continue", "Block.LBracePos": "{", "Block.RBracePos": "}",
		"CallExpr.LParen": "(", "CallExpr.RParen": ")", "ListLiteral.LBracket": "[", "ListLiteral.RBracket": "]"}[r.Kind+"."+r.What]
	if want == "" {
		return
	}
	pos := int(r.P.Pos)
	if pos < 0 || pos+len(want) > len(c.Src) || !strings.EqualFold(c.Src[pos:pos+len(want)], want) {
		rk.Fail(t, "replay", c, "%s.%s = %d does not point at %q", r.Kind, r.What, pos, want)
	}
}
