package c06

import (
	"strings"
	"sync"
	"encoding/json"
	"fmt"
	"os"
	"path/filepath"
	"testing"

	"pgregory.net/rapid"
	"verifharness/conv"
	"verifharness/evid"
	"verifharness/gen"
	"verifharness/impl"
	"verifharness/rk"
)

const prop = "C06"

func TestMain(m *testing.M) {
	evid.Init(prop, "exploration",
		"trees: (1) exhaustive table of every ordered pair of the 14 binary operators in both nestings, every unary x binary combination and postfix operands; (2) random statement/expression trees to depth 5 over every operator, calls with positional/named/trailing-comma arguments, index chains, all slice forms, attribute chains, list/map literals, all assignment kinds, if/elif/else, the 8 for shapes, for-in, break/continue. Each tree is parenthesised only where the documented precedence table requires, printed in the minimal layout, in random admissible layouts (blanks anywhere; line breaks/comments only where the grammar admits them) and with redundant parentheses inserted. Oracle: conv(ParsePipeline(text)) is structurally equal to the tree (signed numeric literals folded); every layout parses to the same tree; redundant parentheses add only paren nodes. Non-trivial: two different operators in parent/child relation, or a layout with a line break/comment inside a statement; distinct by tree skeleton + layout class.",
		"precedence of `in` and of unary operators is taken from gram.y's %left/%right lines (the reference table omits both rows)",
		"chained assignment (a = b = 3), shown in the reference but not part of the property statement, is not generated")
	impl.DisturbEvery = 3 // every third parse/load is preceded by a parse of an unrelated malformed text
	code := m.Run()
	evid.Flush(code == 0)
	os.Exit(code)
}

type replay struct {
	Src    string `json:"src"`
	Want   string `json:"want_tree"`
	Got    string `json:"got_tree,omitempty"`
	Layout string `json:"layout,omitempty"`
}

var parseTurn int

func parseShape(src string) (string, []*gen.Node, error) {
	parseTurn++
	if parseTurn%3 == 0 {
		// the tree a parse returns belongs to the caller: whatever the caller does to it, a later parse of the same
		// text yields the tree of the text again
		if st, err, crash := impl.Parse("c06.p", src); err == nil && crash == nil {
			for i := range st {
				st[i] = nil
			}
		}
	}
	stmts, err, crash := impl.Parse("c06.p", src)
	if crash != nil {
		return "", nil, fmt.Errorf("parser panicked: %s", crash.Value)
	}
	if err != nil {
		return "", nil, fmt.Errorf("rejected: %v", err)
	}
	tree, c := conv.Stmts(stmts)
	if c.Err != nil {
		return "", nil, fmt.Errorf("malformed tree: %v", c.Err)
	}
	return gen.ShapeAll(tree), tree, nil
}

// roundTrip checks print -> parse -> compare for one tree under one layout.
func roundTrip(t rk.Failer, slot string, prog []*gen.Node, lay gen.Layout, layName string) string {
	want := gen.ShapeAll(prog)
	src := gen.Print(prog, lay)
	got, _, err := parseShape(src)
	if err != nil {
		rk.Fail(t, slot, replay{Src: src, Want: want, Layout: layName}, "text of a valid tree (%s layout) was not parsed: %v\nsource: %q", layName, err, src)
	}
	if got != want {
		rk.Fail(t, slot, replay{Src: src, Want: want, Got: got, Layout: layName}, "parsed tree differs from the printed tree (%s layout)\nsource: %q\nwant: %s\ngot:  %s", layName, src, want, got)
	}
	return src
}

func hasMixedOps(prog []*gen.Node) bool {
	found := false
	gen.WalkAll(prog, func(n *gen.Node) {
		if n.Kind != gen.Binary && n.Kind != gen.In && n.Kind != gen.Unary {
			return
		}
		for _, c := range []*gen.Node{n.X, n.Y} {
			for c != nil && c.Kind == gen.Paren {
				c = c.X
			}
			if c != nil && (c.Kind == gen.Binary || c.Kind == gen.In || c.Kind == gen.Unary) && c.Op != n.Op {
				found = true
			}
		}
	})
	return found
}

var binOps = []string{"+", "-", "*", "/", "%", "==", "!=", "<", "<=", ">", ">=", "&&", "||", "in"}
var unOps = []string{"-", "+", "!"}

func id(s string) *gen.Node { return gen.NIdent(s) }

func TestReplays(t *testing.T) {
	files, _ := filepath.Glob(filepath.Join(evid.Dir(), "replays", prop, "*.json"))
	if r := os.Getenv("VERIF_REPLAY"); r != "" {
		files = []string{r}
	}
	for _, f := range files {
		b, err := os.ReadFile(f)
		if err != nil {
			continue
		}
		var r struct {
			Case replay `json:"case"`
		}
		if json.Unmarshal(b, &r) != nil || r.Case.Src == "" {
			continue
		}
		t.Run(filepath.Base(f), func(t *testing.T) {
			got, _, err := parseShape(r.Case.Src)
			if err != nil {
				rk.Fail(t, "replay", r.Case, "replay: %v", err)
			}
			if got != r.Case.Want {
				rk.Fail(t, "replay", r.Case, "replay: parsed tree differs\nwant: %s\ngot:  %s", r.Case.Want, got)
			}
			evid.Case("replay:"+r.Case.Src, true, "replay")
		})
	}
}

// TestOperatorTable enumerates the operator-pair space completely.
func TestOperatorTable(t *testing.T) {
	n := 0
	run := func(tree *gen.Node, key string) {
		prog := gen.FixAll([]*gen.Node{gen.NSet("r", tree)})
		for li, lay := range []gen.Layout{gen.Minimal{}, gen.Spaced{}, &gen.Choices{C: []int{2, 6, 3, 8, 1}}} {
			src := roundTrip(t, "table", prog, lay, fmt.Sprint("table-layout-", li))
			evid.Case(fmt.Sprint(key, "/", li), true, "table")
			if n%97 == 0 && li == 0 {
				evid.Sample(map[string]any{"class": "operator-table", "src": src, "tree": gen.ShapeAll(prog)})
			}
		}
		n++
	}
	for _, o1 := range binOps {
		for _, o2 := range binOps {
			run(gen.NBin(o1, gen.NBin(o2, id("a"), id("b")), id("c")), "L:"+o1+o2)
			run(gen.NBin(o1, id("a"), gen.NBin(o2, id("b"), id("c"))), "R:"+o1+o2)
			// three levels: both children compound
			run(gen.NBin(o1, gen.NBin(o2, id("a"), id("b")), gen.NBin(o2, id("c"), id("d"))), "B:"+o1+o2)
		}
		for _, u := range unOps {
			run(gen.NUnary(u, gen.NBin(o1, id("a"), id("b"))), "U1:"+u+o1)
			run(gen.NBin(o1, gen.NUnary(u, id("a")), id("b")), "U2:"+u+o1)
			run(gen.NBin(o1, id("a"), gen.NUnary(u, id("b"))), "U3:"+u+o1)
			run(gen.NBin(o1, gen.NUnary(u, gen.NInt(3)), gen.NUnary(u, gen.NFloat(1.5))), "U4:"+u+o1)
			for _, u2 := range unOps {
				run(gen.NUnary(u, gen.NUnary(u2, id("a"))), "UU:"+u+u2)
				run(gen.NUnary(u, gen.NUnary(u2, gen.NInt(7))), "UUi:"+u+u2)
			}
		}
		// postfix operands bind tighter than everything
		run(gen.NBin(o1, gen.NIndex(id("a"), gen.NInt(0)), gen.NCall("f", id("b"))), "P1:"+o1)
		run(gen.NBin(o1, gen.NSlice(id("a"), gen.NInt(1), nil, nil, false), gen.NAttr(id("b"), id("c"))), "P2:"+o1)
		run(gen.NUnary("-", gen.NIndex(id("a"), gen.NBin(o1, id("i"), id("j")))), "P3:"+o1)
		run(gen.NCall("f", gen.NBin(o1, id("a"), id("b")), gen.NAssign("=", []*gen.Node{id("k")}, []*gen.Node{gen.NBin(o1, id("c"), id("d"))})), "P4:"+o1)
	}
	evid.Exhaustive("operator-pair-table", n)
}

func TestRandomTrees(t *testing.T) {
	p := gen.ProfileSyntax()
	rk.Check(t, "random", 1, evid.Scale(4000, 40000), func(t *rapid.T) {
		prog := gen.Program(t, p)
		skel := gen.Skeleton(prog)
		mixed := hasMixedOps(prog)
		src := roundTrip(t, "random", prog, gen.Minimal{}, "minimal")
		evid.Case("min:"+skel, mixed, "layout/minimal")
		k := evid.Scale(2, 4)
		for i := 0; i < k; i++ {
			lay := gen.RandomLayout(t)
			lsrc := roundTrip(t, "random", prog, lay, "random")
			nt := lay.NL > 0 || lay.Comments > 0
			lab := "layout/blanks-only"
			if nt {
				lab = "layout/with-linebreaks-or-comments"
			}
			evid.Case(fmt.Sprintf("lay:%s:%d:%d", skel, lay.NL, lay.Comments), nt || mixed, lab)
			if i == 0 && nt {
				evid.Sample(map[string]any{"class": "random-layout", "src": lsrc, "tree": clip(gen.ShapeAll(prog))})
			}
		}
		if mixed {
			evid.Sample(map[string]any{"class": "minimal", "src": src, "tree": clip(gen.ShapeAll(prog))})
		}
	})
}

func clip(s string) string {
	if len(s) > 300 {
		return s[:300] + "..."
	}
	return s
}

// addParens wraps random general expression positions in redundant Paren nodes.
func addParens(t *rapid.T, prog []*gen.Node) int {
	count := 0
	var visit func(n *gen.Node)
	wrap := func(pp **gen.Node) {
		if *pp == nil {
			return
		}
		visit(*pp)
		if rapid.IntRange(0, 3).Draw(t, "wrap") == 0 {
			*pp = gen.NParen(*pp)
			count++
		}
	}
	wrapList := func(l []*gen.Node) {
		for i := range l {
			if l[i] != nil && l[i].Kind == gen.Assign { // named argument: only its value is an expression slot
				for j := range l[i].Rhs {
					wrap(&l[i].Rhs[j])
				}
				continue
			}
			wrap(&l[i])
		}
	}
	stmts := func(l []*gen.Node) {
		for i := range l {
			if l[i].IsStmtOnly() {
				visit(l[i])
			} else {
				wrap(&l[i])
			}
		}
	}
	visit = func(n *gen.Node) {
		switch n.Kind {
		case gen.Paren, gen.Unary:
			wrap(&n.X)
		case gen.Binary, gen.In:
			wrap(&n.X)
			wrap(&n.Y)
		case gen.List, gen.Map, gen.Call:
			wrapList(n.Args)
		case gen.Index:
			wrapList(n.Args)
		case gen.Attr:
			visit(n.X)
			visit(n.Y)
		case gen.Slice:
			visit(n.X)
			wrap(&n.Lo)
			wrap(&n.Hi)
			wrap(&n.Step)
		case gen.Assign:
			for _, l := range n.Args {
				visit(l)
			}
			wrapList(n.Rhs)
		case gen.If:
			for i := range n.Conds {
				wrap(&n.Conds[i])
				stmts(n.Blocks[i])
			}
			stmts(n.Else)
		case gen.For:
			for _, c := range []**gen.Node{&n.Lo, &n.Step} {
				if *c != nil && (*c).Kind == gen.Assign {
					visit(*c)
				} else {
					wrap(c)
				}
			}
			wrap(&n.Hi)
			stmts(n.Body)
		case gen.ForIn:
			wrap(&n.Y)
			stmts(n.Body)
		}
	}
	stmts(prog)
	return count
}

// TestDeepAndLong: the same round trip for trees far larger than the random generator draws: operator chains of
// up to 400 operators (left-deep, right-deep under parentheses, alternating precedence levels), parentheses /
// unary signs / list and map literals / calls nested up to 60 deep, blocks nested up to 40 deep, 500 statements.
func TestDeepAndLong(t *testing.T) {
	ops := []string{"+", "*", "-", "==", "&&", "/", "<", "||", "%", "!=", ">=", "in"}
	leaf := func(i int) *gen.Node {
		switch i % 4 {
		case 0:
			return id("a")
		case 1:
			return gen.NInt(int64(i))
		case 2:
			return gen.NStr("s")
		}
		return gen.NFloat(0.5)
	}
	lays := []struct {
		n string
		l func() gen.Layout
	}{{"minimal", func() gen.Layout { return gen.Minimal{} }}, {"spaced", func() gen.Layout { return gen.Spaced{} }}, {"choices", func() gen.Layout { return &gen.Choices{C: []int{3, 1, 4, 1, 5, 9, 2, 6}} }}}
	n := 0
	check := func(kind string, size int, prog []*gen.Node) {
		prog = gen.FixAll(prog)
		for _, ly := range lays {
			roundTrip(t, "deep", gen.CloneProg(prog), ly.l(), ly.n)
		}
		evid.Case(fmt.Sprintf("deep/%s/%d", kind, size), true, "deep-and-long/"+kind)
		n++
	}
	for _, ln := range []int{2, 5, 16, 31, 32, 33, 64, 65, 100, 128, 129, 256, 257, 400} {
		// left-deep with cycling operators: precedence decides the shape
		e := leaf(0)
		for i := 1; i <= ln; i++ {
			e = gen.NBin(ops[i%len(ops)], e, leaf(i))
		}
		check("mixed-chain", ln, []*gen.Node{gen.NSet("x", e)})
		// one operator, left-deep
		for _, op := range []string{"+", "-", "&&", "=="} {
			e = leaf(0)
			for i := 1; i <= ln; i++ {
				e = gen.NBin(op, e, leaf(i))
			}
			check("left-"+op, ln, []*gen.Node{gen.NSet("x", e)})
		}
		// right-deep: needs a parenthesis at every level
		e = leaf(ln)
		for i := ln - 1; i >= 0 && ln <= 130; i-- {
			e = gen.NBin("-", leaf(i), e)
		}
		if ln <= 130 {
			check("right-deep", ln, []*gen.Node{gen.NSet("x", e)})
		}
		// many statements, many arguments, many elements
		var stmts []*gen.Node
		var args []*gen.Node
		for i := 0; i < ln; i++ {
			stmts = append(stmts, gen.NSet("v", leaf(i)))
			args = append(args, leaf(i))
		}
		check("statements", ln, stmts)
		check("arguments", ln, []*gen.Node{gen.NCall("f", args...), gen.NSet("l", gen.NList(gen.CloneProg(args)...))})
	}
	for _, d := range []int{2, 8, 15, 16, 17, 31, 32, 33, 48, 60} {
		var e *gen.Node
		for kind := 0; kind < 6; kind++ {
			e = id("a")
			for i := 0; i < d; i++ {
				switch kind {
				case 0:
					e = gen.NParen(e)
				case 1:
					e = gen.NUnary([]string{"-", "!", "+"}[i%3], gen.NParen(e))
				case 2:
					e = gen.NList(gen.NInt(1), e)
				case 3:
					e = gen.NMap(gen.NStr("k"), e)
				case 4:
					e = gen.NCall("f", e, gen.NInt(int64(i)))
				default:
					e = gen.NBin([]string{"*", "+"}[i%2], gen.NInt(int64(i)), gen.NParen(e))
				}
			}
			check(fmt.Sprintf("nest-%d", kind), d, []*gen.Node{gen.NSet("x", e)})
		}
		// blocks
		body := []*gen.Node{gen.NSet("z", gen.NInt(1))}
		for i := 0; i < d && d <= 40; i++ {
			switch i % 3 {
			case 0:
				body = []*gen.Node{gen.NIf([]*gen.Node{id("a")}, [][]*gen.Node{body}, []*gen.Node{gen.NSet("e", gen.NInt(int64(i)))}, true)}
			case 1:
				body = []*gen.Node{gen.NForIn("q", id("l"), body)}
			default:
				body = []*gen.Node{gen.NFor(nil, id("a"), nil, body)}
			}
		}
		if d <= 40 {
			check("blocks", d, body)
		}
		// index paths
		ix := make([]*gen.Node, d)
		for i := range ix {
			ix[i] = gen.NInt(int64(i))
		}
		check("index-path", d, []*gen.Node{gen.NSet("x", gen.NIndex(id("a"), ix...)), gen.NAssign("=", []*gen.Node{gen.NIndex(id("a"), gen.CloneProg(ix)...)}, []*gen.Node{gen.NInt(1)})})
	}
	evid.Exhaustive("chains up to 400 operators, nesting up to 60, blocks up to 40, x 3 layouts", n)
}

// TestEmptyPrograms: a text that holds no statement - blank lines, comment lines, empty statements, in any mixture
// and with either line-end convention - is the empty program, as long as it ends a line at all.
func TestEmptyPrograms(t *testing.T) {
	lines := []string{"", "   ", "\t", "# note", "  # indented note", "#", "# é 注", ";", " ; ; ", "# a # b"}
	n := 0
	var rec func(cur []int)
	rec = func(cur []int) {
		if len(cur) > 0 {
			for _, eol := range []string{"\n", "\r\n"} {
				var b strings.Builder
				for _, li := range cur {
					b.WriteString(lines[li])
					b.WriteString(eol)
				}
				src := b.String()
				shape, tree, err := parseShape(src)
				if err != nil {
					rk.Fail(t, "empty", replay{Src: src, Want: "no statements"}, "a text without statements was not parsed as the empty program: %v\nsource: %q", err, src)
				}
				if len(tree) != 0 {
					rk.Fail(t, "empty", replay{Src: src, Want: "no statements", Got: shape}, "a text without statements parsed to %d statement(s): %s\nsource: %q", len(tree), shape, src)
				}
				evid.Case("empty/"+src, true, "empty-program")
				n++
			}
		}
		if len(cur) == 3 {
			return
		}
		for i := range lines {
			rec(append(append([]int{}, cur...), i))
		}
	}
	rec(nil)
	evid.Exhaustive("sequences of up to three statement-less lines x line-end convention", n)
}

// TestConcurrentParses: the tree of a text does not depend on what else is being parsed at the same moment: several
// goroutines parse different texts (string literals with escapes, quotes, line breaks, characters beyond ASCII; random
// programs) over and over; every parse yields the tree the text was printed from.
func TestConcurrentParses(t *testing.T) {
	p := gen.ProfileSyntax()
	runes := []rune{'a', 'z', '"', '\\', '\n', '\'', 'é', '\t', '注', ' ', '0', '\r'}
	rk.Check(t, "concurrent", 9, evid.Scale(40, 400), func(t *rapid.T) {
		const G = 8
		texts, wants := make([]string, G), make([]string, G)
		for g := 0; g < G; g++ {
			var prog []*gen.Node
			ns := rapid.IntRange(1, 4).Draw(t, "nstrings")
			for i := 0; i < ns; i++ {
				body := string(rapid.SliceOfN(rapid.SampledFrom(runes), 1, 24).Draw(t, "string"))
				prog = append(prog, gen.NSet(fmt.Sprintf("s%d", i), gen.NStr(fmt.Sprintf("<%d.%d>%s", g, i, body))))
			}
			if rapid.Bool().Draw(t, "with-program") {
				prog = append(prog, gen.Program(t, p)...)
			}
			lay := gen.Layout(gen.Minimal{})
			if rapid.Bool().Draw(t, "random-layout") {
				lay = gen.RandomLayout(t)
			}
			texts[g], wants[g] = gen.Print(prog, lay), gen.ShapeAll(prog)
			// alone first
			if got, _, err := parseShape(texts[g]); err != nil || got != wants[g] {
				rk.Fail(t, "concurrent", replay{Src: texts[g], Want: wants[g], Got: got}, "parsed alone, the text does not give its tree: %v\nsource: %q", err, texts[g])
			}
		}
		rounds := evid.Scale(60, 200)
		type bad struct {
			g        int
			got, err string
		}
		var mu sync.Mutex
		var bads []bad
		var wg sync.WaitGroup
		for g := 0; g < G; g++ {
			wg.Add(1)
			go func(g int) {
				defer wg.Done()
				for r := 0; r < rounds; r++ {
					stmts, err, crash := impl.Parse("c06.p", texts[g])
					b := bad{g: g}
					switch {
					case crash != nil:
						b.err = "parser panicked: " + fmt.Sprint(crash.Value)
					case err != nil:
						b.err = "rejected: " + err.Error()
					default:
						tree, c := conv.Stmts(stmts)
						if c.Err != nil {
							b.err = "malformed tree: " + c.Err.Error()
						} else if got := gen.ShapeAll(tree); got != wants[g] {
							b.got = got
						} else {
							continue
						}
					}
					mu.Lock()
					bads = append(bads, b)
					mu.Unlock()
					return
				}
			}(g)
		}
		wg.Wait()
		if len(bads) > 0 {
			b := bads[0]
			for _, x := range bads {
				if x.g < b.g {
					b = x
				}
			}
			rk.Fail(t, "concurrent", replay{Src: texts[b.g], Want: wants[b.g], Got: b.got, Layout: "parsed while 7 other texts were being parsed"}, "parsed next to other parses, the text does not give its tree (%s)\nsource: %q\nwant: %s\ngot:  %s", b.err, texts[b.g], wants[b.g], b.got)
		}
		evid.Case("concurrent:"+texts[0]+texts[1], true, "concurrent-parses")
	})
}

func TestRedundantParens(t *testing.T) {
	p := gen.ProfileSyntax()
	rk.Check(t, "parens", 2, evid.Scale(2500, 30000), func(t *rapid.T) {
		prog := gen.Program(t, p)
		base := gen.ShapeAll(prog)
		withP := make([]*gen.Node, len(prog))
		for i := range prog {
			withP[i] = prog[i].Clone()
		}
		n := addParens(t, withP)
		// re-apply Fix: wrapping may have made required parens children of a paren; Fix only adds where needed
		lay := gen.RandomLayout(t)
		src := roundTrip(t, "parens", withP, lay, "random+parens")
		stripped := make([]*gen.Node, len(withP))
		for i := range withP {
			stripped[i] = gen.StripParens(withP[i].Clone())
		}
		baseStripped := make([]*gen.Node, len(prog))
		for i := range prog {
			baseStripped[i] = gen.StripParens(prog[i].Clone())
		}
		_ = base
		if gen.ShapeAll(stripped) != gen.ShapeAll(baseStripped) {
			t.Fatalf("harness bug: paren insertion changed the tree")
		}
		// and the parsed tree, parens removed, equals the original tree, parens removed
		_, tree, err := parseShape(src)
		if err != nil {
			rk.Fail(t, "parens", replay{Src: src, Want: gen.ShapeAll(withP)}, "%v", err)
		}
		for i := range tree {
			tree[i] = gen.StripParens(tree[i])
		}
		if got := gen.ShapeAll(tree); got != gen.ShapeAll(baseStripped) {
			rk.Fail(t, "parens", replay{Src: src, Want: gen.ShapeAll(baseStripped), Got: got}, "redundant parentheses changed more than paren nodes\nsource: %q", src)
		}
		evid.Case("par:"+gen.Skeleton(withP), n > 0, "redundant-parens")
	})
}
