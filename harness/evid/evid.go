// Package evid collects what a check actually covered (counters, distinct
// non-trivial case hashes, samples, label histogram, discards), records
// violations as replay files and known-finding hits, and writes one part file
// per process that the driver merges into /verif/evidence/<id>.json.
package evid

import (
	"encoding/json"
	"fmt"
	"hash/fnv"
	"os"
	"path/filepath"
	"sort"
	"strconv"
	"sync"
	"time"
)

type Part struct {
	Property    string         `json:"property"`
	Tier        string         `json:"tier"`
	Seed        int64          `json:"seed"`
	Shard       int            `json:"shard"`
	Evaluations int64          `json:"evaluations"`
	Hashes      []uint64       `json:"hashes"`
	Labels      map[string]int `json:"labels"`
	Discards    map[string]int `json:"discards"`
	Samples     []any          `json:"samples"`
	Rule        string         `json:"rule"`
	Level       string         `json:"level"`
	Assumptions []string       `json:"assumptions"`
	Exhaustive  map[string]int `json:"exhaustive"`
	Violations  []string       `json:"violations"`
	KnownHits   map[string]int `json:"known_hits"`
	KnownLines  []string       `json:"known_lines"`
	Extra       map[string]any `json:"extra"`
	WallS       float64        `json:"wall_s"`
	Completed   bool           `json:"completed"`
}

type finding struct {
	Property string `json:"property"`
	Key      string `json:"key"`
	Status   string `json:"status"`
	What     string `json:"what"`
	Commit   string `json:"commit,omitempty"`
}

var (
	mu       sync.Mutex
	part     Part
	hashes   = map[uint64]struct{}{}
	started  = time.Now()
	findings []finding
	loaded   bool
	nViol    int
	maxHash  = 4_000_000
)

func env(k, d string) string {
	if v := os.Getenv(k); v != "" {
		return v
	}
	return d
}

// Tier returns "quick" or "thorough".
func Tier() string { return env("VERIF_TIER", "quick") }

func Thorough() bool { return Tier() == "thorough" }

// Seed is the VERIF_SEED value (default 1).
func Seed() int64 {
	n, err := strconv.ParseInt(env("VERIF_SEED", "1"), 10, 64)
	if err != nil {
		return 1
	}
	return n
}

func Shard() int   { n, _ := strconv.Atoi(env("VERIF_SHARD", "0")); return n }
func NShards() int { n, _ := strconv.Atoi(env("VERIF_NSHARDS", "1")); return maxi(n, 1) }
func Dir() string  { return env("VERIF_DIR", "/verif") }
func Repo() string { return env("VERIF_REPO", "/repo") }
func OutDir() string {
	d := env("VERIF_OUT", filepath.Join(os.TempDir(), "verif-out"))
	_ = os.MkdirAll(d, 0o755)
	return d
}

func maxi(a, b int) int {
	if a > b {
		return a
	}
	return b
}

// RapidSeed derives the rapid seed for this process; never 0.
func RapidSeed(salt int) uint64 {
	s := uint64(Seed())*1_000_003 + uint64(Shard())*7919 + uint64(salt)*104729 + 1
	if s == 0 {
		s = 1
	}
	return s
}

// Scale picks a case count by tier.
func Scale(quick, thorough int) int {
	if Thorough() {
		return thorough
	}
	return quick
}

func Init(property, level, rule string, assumptions ...string) {
	mu.Lock()
	defer mu.Unlock()
	part.Property = property
	part.Level = level
	part.Rule = rule
	part.Assumptions = assumptions
	part.Tier = Tier()
	part.Seed = Seed()
	part.Shard = Shard()
	if part.Labels == nil {
		part.Labels = map[string]int{}
		part.Discards = map[string]int{}
		part.Exhaustive = map[string]int{}
		part.KnownHits = map[string]int{}
		part.Extra = map[string]any{}
	}
}

func hash(s string) uint64 {
	h := fnv.New64a()
	_, _ = h.Write([]byte(s))
	return h.Sum64()
}

// Case counts one executed case. key identifies the case for the distinct
// count (only used when nontrivial is true).
func Case(key string, nontrivial bool, labels ...string) {
	mu.Lock()
	defer mu.Unlock()
	part.Evaluations++
	if nontrivial && len(hashes) < maxHash {
		hashes[hash(key)] = struct{}{}
	}
	for _, l := range labels {
		part.Labels[l]++
	}
}

func Label(l string) {
	mu.Lock()
	part.Labels[l]++
	mu.Unlock()
}

func LabelN(l string, n int) {
	mu.Lock()
	part.Labels[l] += n
	mu.Unlock()
}

func Discard(reason string) {
	mu.Lock()
	part.Discards[reason]++
	mu.Unlock()
}

// Sample keeps up to 12 samples per process: the first 6 and then a thinning
// selection of later ones.
var sampleSeen int

func Sample(s any) {
	mu.Lock()
	defer mu.Unlock()
	sampleSeen++
	if len(part.Samples) < 6 {
		part.Samples = append(part.Samples, s)
		return
	}
	if len(part.Samples) < 12 && sampleSeen&(sampleSeen-1) == 0 {
		part.Samples = append(part.Samples, s)
	}
}

func Exhaustive(name string, n int) {
	mu.Lock()
	part.Exhaustive[name] += n
	mu.Unlock()
}

func Extra(k string, v any) {
	mu.Lock()
	part.Extra[k] = v
	mu.Unlock()
}

func loadFindings() {
	if loaded {
		return
	}
	loaded = true
	b, err := os.ReadFile(filepath.Join(Dir(), "known_findings.json"))
	if err != nil {
		return
	}
	var f struct {
		Findings []finding `json:"findings"`
	}
	if json.Unmarshal(b, &f) == nil {
		findings = f.Findings
	}
}

// KnownActive reports whether known_findings.json lists key with status "known"
// for this property.
func KnownActive(key string) bool {
	mu.Lock()
	defer mu.Unlock()
	loadFindings()
	for _, f := range findings {
		if f.Key == key && f.Status == "known" && f.Property == part.Property {
			return true
		}
	}
	return false
}

// KnownHit records that a generated case was excluded / matched by a known finding.
func KnownHit(key string) {
	mu.Lock()
	part.KnownHits[key]++
	mu.Unlock()
}

// KnownStillFails records that the fixed reproduction of a listed finding still fails.
func KnownStillFails(key, what string) {
	mu.Lock()
	defer mu.Unlock()
	line := fmt.Sprintf("KNOWN-FINDING: property=%s %s (%s)", part.Property, what, key)
	for _, l := range part.KnownLines {
		if l == line {
			return
		}
	}
	part.KnownLines = append(part.KnownLines, line)
}

// Pending writes the current failing case; a rapid property calls it right
// before failing, so the file left behind is the last (= shrunk) failing case.
func Pending(slot string, replay any) string {
	mu.Lock()
	defer mu.Unlock()
	p := filepath.Join(OutDir(), fmt.Sprintf("pending-%d-%s.json", Shard(), slot))
	b, _ := json.MarshalIndent(replay, "", " ")
	_ = os.WriteFile(p, b, 0o644)
	found := false
	for _, v := range part.Violations {
		if v == p {
			found = true
		}
	}
	if !found {
		part.Violations = append(part.Violations, p)
	}
	return p
}

// ClearPending removes a pending record (used when a rapid check ended OK after
// a non-reproducible failure).
func ClearPending(slot string) {
	mu.Lock()
	defer mu.Unlock()
	p := filepath.Join(OutDir(), fmt.Sprintf("pending-%d-%s.json", Shard(), slot))
	out := part.Violations[:0]
	for _, v := range part.Violations {
		if v != p {
			out = append(out, v)
		}
	}
	part.Violations = out
	_ = os.Remove(p)
}

func NViolations() int {
	mu.Lock()
	defer mu.Unlock()
	return len(part.Violations)
}

// Flush writes the part file. Call from TestMain after m.Run().
func Flush(completed bool) {
	mu.Lock()
	defer mu.Unlock()
	part.Hashes = part.Hashes[:0]
	for h := range hashes {
		part.Hashes = append(part.Hashes, h)
	}
	sort.Slice(part.Hashes, func(i, j int) bool { return part.Hashes[i] < part.Hashes[j] })
	part.WallS = time.Since(started).Seconds()
	part.Completed = completed
	b, err := json.Marshal(&part)
	if err != nil {
		fmt.Fprintln(os.Stderr, "evid: marshal:", err)
		return
	}
	p := filepath.Join(OutDir(), fmt.Sprintf("part-%d.json", Shard()))
	if err := os.WriteFile(p, b, 0o644); err != nil {
		fmt.Fprintln(os.Stderr, "evid: write:", err)
	}
}

// ---------------------------------------------------------------- watchdog for calls that must terminate

var watch struct {
	mu      sync.Mutex
	started bool
	active  bool
	since   time.Time
	slot    string
	replay  any
	what    string
}

// WatchLimit is the time after which a watched call counts as hung (expected run times are far below 1 ms).
var WatchLimit = 30 * time.Second

// Watch marks the start of a call that must return; Unwatch its end. If a watched call is still running
// after WatchLimit the violation is recorded with its replay and the process exits with status 1.
func Watch(slot, what string, replay any) {
	watch.mu.Lock()
	watch.active, watch.since, watch.slot, watch.replay, watch.what = true, time.Now(), slot, replay, what
	if !watch.started {
		watch.started = true
		go func() {
			for {
				time.Sleep(500 * time.Millisecond)
				watch.mu.Lock()
				hung := watch.active && time.Since(watch.since) > WatchLimit
				slot, rp, what := watch.slot, watch.replay, watch.what
				watch.mu.Unlock()
				if hung {
					Pending(slot, map[string]any{"slot": slot, "message": fmt.Sprintf("%s did not return within %v", what, WatchLimit), "case": rp})
					Flush(false)
					fmt.Printf("watchdog: %s did not return within %v\n", what, WatchLimit)
					os.Exit(1)
				}
			}
		}()
	}
	watch.mu.Unlock()
}

func Unwatch() {
	watch.mu.Lock()
	watch.active = false
	watch.mu.Unlock()
}

// ---------------------------------------------------------------- the case in flight

var currentPath string

// Current records the case that is about to be run on the implementation, so that a death of the
// whole process (fatal error: stack overflow, runtime throw) can be attributed to it by the driver.
func Current(slot string, replay any) {
	if currentPath == "" {
		currentPath = filepath.Join(OutDir(), fmt.Sprintf("current-%d.json", Shard()))
	}
	b, _ := json.Marshal(map[string]any{"slot": slot, "message": "the process died while this case was running", "case": replay})
	_ = os.WriteFile(currentPath, b, 0o644)
}

// ClearCurrent removes the in-flight record.
func ClearCurrent() {
	if currentPath != "" {
		_ = os.Remove(currentPath)
	}
}
