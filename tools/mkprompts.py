#!/usr/bin/env python3
"""Writes the prompts of a seeding round: tools/mkprompts.py <round-dir> (e.g. /tmp/seed7).
Each prompt holds the text of one property, the triggers of the changes already filed for it (seeded/*/meta.json)
and the general instructions; nothing else from /verif."""
import json, os, sys, glob, string
root = sys.argv[1]
V = os.path.dirname(os.path.dirname(os.path.abspath(__file__)))
props = [json.loads(l) for l in open(os.path.join(V, 'properties.jsonl'))]
HEAD = """You are working in a scratch git worktree of the Go repository GuanceCloud/platypus at {wt} (a small DSL for observability data pipelines: lexer and goyacc parser in pkg/parser, AST in pkg/ast, load-time checker and tree-walking interpreter v1 in pkg/engine/runtime, a second interpreter v2 in pkg/engine/runtimev2, script loading/linking in pkg/engine, builtin functions in pkg/inimpl/guancecloud/funcs, the data point in pkg/inimpl/guancecloud/input, error chains in pkg/errchain, positions in pkg/token, the CLI in internal/cmd/platypus and cmd/platypus). Work ONLY inside {wt}; do not read or touch /verif or /repo or any other directory under /tmp. The sandbox has no network: for every go command first run `export GOFLAGS=-mod=mod GOPROXY=off GOSUMDB=off GOTOOLCHAIN=local`.

Here is a semantic property of this system that is supposed to hold:

Property {id}: {title}

Statement: {statement}

Quantifier: {quant}

Why the existing tests cannot settle it: {why}

"""
TAUGHT = """The people who check this property have since taught their checks: to re-run loaded scripts several times, on points of other types and along another path than the first run (also after a run that failed inside a block); to interleave unrelated failing operations; to sweep sizes around 16/32/64/256/4096/65536 (operator chains, nesting depth, repeated statements, text size, use-chain length, list length, number of keys / captures / parameters / polls); to use 4-byte characters, byte order marks, CR and CR LF, invalid UTF-8, nil-valued, value-less and self-containing arguments, float corner values (NaN, infinities, 5e-7, 1e21, -0) as subjects; script and identifier names that contain one another, contain directories, '%' or differ only by letter case, or look like reserved words; to raise the exit signal from inside a builtin or an assignment; to run loads, parses and runs concurrently before anything was initialised sequentially; to go through the exported linker with scripts of an earlier load or with a function table per script; to call Check again on loaded and linked scripts; to put literals, signed numerals and calls into unusual but valid contexts (after other quoting forms, after a conditional continue, inside value statements, as surplus values, at the start of a statement); to compare the rendered text of errors as well as their position chains; to feed every Go number kind, documents with trailing garbage, partly malformed or empty inputs; to repeat an operation after hundreds of operations with other arguments of the same kind; to pass values in which one collection is reachable along two paths, nil as well as empty maps, points initialised again without going through the pool, field values of every Go kind; to use one representative of every Unicode character class (format, separator, combining, private use, non-characters, characters whose low byte is an ASCII character) in names and texts; to put an invalid construct into every composite form of the grammar; to give signals, tables and parameter lists that are shared, edited, or have more methods than needed; to run the command-line tool in other time zones, on inputs that are not regular files, in directories with unusual names; to evaluate every operator expression in every position (assignment, if / elif / for condition, argument, element, key); to load sets in which several scripts have identical texts, sets read back from directories, scripts that are nothing but one use() call; to drive the exported lower-level API the way an embedding host may (one task initialised again per run, private values, check functions that fault, declared parameter types, defaults that are collections); to compare the error of a second run, and the error text after the error was rendered, with the first; to parse from several goroutines at once, also after rejected texts; to hold many runs inside one used script at the same moment; to re-examine the scripts of earlier loads after later loads; to retype keys by rename / add_key and read them with every operator; to edit collections in place between two builtin calls; to use empty-valued tags and fields, the empty script name, the `_` spelling of message in every argument position, captures that take no part in a match, zone names with signs, operands on the line below their operator, host functions that wait on ProcExit, call sites executed repeatedly with changing named arguments, standard output across use(); to produce the same value by every route (empty lists and maps from literals, slices, documents) and compare and alias them; to use subnormal floats, whole numbers beyond 2^53 as tag text, white space beyond ASCII, near misses of enumerated words (type names, reserved words as parameter names), numerals cut short, literal lists whose joined texts coincide; to observe the evaluation order of every composite form (map entries key then value, arguments, subscripts, slice bounds) with a failing sibling; to grow maps while they are iterated; to pass arguments that yield several values and value-less builtins as values; to let a waiting builtin observe the stop first and then enter a callee, and to raise the stop inside expression statements; to re-examine the maps of finished points after later runs; to change the process zone between runs of one loaded script; to start the command-line tool in directories that hold namesakes of scripts and inputs, on workspaces with sub-directories and symbolic links; to parse a text again after unrelated awkward texts; to end comments with every kind of line end before every kind of character; to slice slices; to name script files with a leading dot; to compare tag texts against byte copies after later writes of other floats and collections; to trim with multi-byte cut sets; to put whatever ends a statement into every loop and branch header; to end passes over maps with continue; to capture standard output of concurrent long printf calls; to begin script files with blank lines; and to cover the cases above. Look for what such checks would still NOT exercise - for instance: a builtin option or argument combination nobody thinks of, behaviour on error paths (what is left behind or reported when something fails half-way), interactions between two builtins or two language features, numeric corner values inside builtins (overflow, precision, rounding, sign), time zones / calendars / leap seconds / year boundaries, differences between the two interpreters, ordering guarantees, precise values or positions in unusual but valid constructs, what the command-line tool does with unusual flags or files.
Prefer, for A and B, two different kinds among: state that leaks between operations (pools, caches, shared structures), boundary / arithmetic / encoding corner cases, an interaction between two features that each work alone, a wrong result that is only visible by comparing values or positions precisely (no crash, no error).

"""
TASK = """Your task: produce TWO independent source changes ("seeded defects"), called A and B, each of which breaks this property while
 (1) the repository still compiles (`go build ./...`),
 (2) the existing test suite still passes, unedited (`go test -vet=off -count=1 ./...` - run it with the change applied),
 (3) the breakage needs something specific to manifest: a particular interleaving, a crash or fault at a particular point, a multi-step sequence of operations, an unusual input, or two cooperating sites that each look fine alone - NOT something that ordinary use would expose at once.
Make them realistic: the kind of change a refactoring, an optimisation, or a bug fix gone slightly wrong would produce. A and B must use different mechanisms / different code sites. Keep each patch small (a few lines to a few dozen). Do not edit or delete existing tests.

For each change X in {{A, B}} deliver, in the directory {wt}/_seed/X/ :
 - patch.diff : the output of `git diff` for that change alone against HEAD (it must apply to a clean checkout with `git apply`).
 - a demonstration: a Go test file demo_test.go (say in a comment at its top which package directory it has to be copied into to run, and the `go test -run` command) or a small `main` program, that FAILS with the change applied and PASSES without it. Verify both outcomes yourself and keep the outputs.
 - notes.md : what the change does, why the existing tests do not catch it, what exactly is needed to make it manifest (the triggering input / sequence / schedule), and the commands you ran with their outcomes.
Do NOT use `git stash` (the stash is shared between worktrees; other people work in sibling worktrees): undo a change with `git apply -R` or `git checkout -- <files>`. When you finish, the worktree must be back at HEAD (clean apart from the _seed/ directory): `git status --short` should only show `_seed/`.

Finish with a short report: one paragraph for A and one for B (what, where, trigger).
"""
for p in props:
    pid = p['id']
    wt = os.path.join(root, pid)
    needs = []
    for d in sorted(glob.glob(os.path.join(V, 'seeded', pid + '-*'))):
        try:
            m = json.load(open(os.path.join(d, 'meta.json')))
        except Exception:
            continue
        n = m.get('needs_to_manifest') or ''
        if n:
            needs.append(n.strip().rstrip('.'))
    letters = list(string.ascii_lowercase) + ['a' + c for c in string.ascii_lowercase]
    earlier = ''
    if needs:
        earlier = ("Earlier work already produced the following changes for this property; yours must be DIFFERENT "
                   "(other code sites, other mechanisms, other triggers): " +
                   '; '.join('(%s) a change that needs: %s' % (letters[i], n) for i, n in enumerate(needs)) + '. ')
    q = p.get('quantifier', {})
    txt = HEAD.format(wt=wt, id=pid, title=p['title'], statement=p['statement'], quant=q.get('text', ''), why=p.get('why_tests_cant', ''))
    txt += earlier + TAUGHT + TASK.format(wt=wt)
    open(os.path.join(root, pid + '.prompt.txt'), 'w').write(txt)
print('wrote', len(props), 'prompts to', root)
