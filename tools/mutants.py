#!/usr/bin/env python3
"""Sensitivity run: applies hand-written single-site mutants of /repo (in a scratch worktree under /tmp) and runs
the quick check of the property each one should break. Usage: tools/mutants.py [ids...]   (no ids = all)
A mutant is (id, property, file, old, new). The table records what the check reported."""
import json, os, subprocess, sys, shutil, time

V = os.path.dirname(os.path.dirname(os.path.abspath(__file__)))
WT = "/tmp/mut-wt"
RT = "pkg/engine/runtime/runtime.go"
CK = "pkg/engine/runtime/checkstmt.go"
CTX = "pkg/engine/runtime/context.go"
PAR = "pkg/parser/parser.go"
LEX = "pkg/parser/lex.go"
STR = "pkg/parser/strutil.go"
PT = "pkg/inimpl/guancecloud/input/point.go"
FN = "pkg/inimpl/guancecloud/funcs/"
V2 = "pkg/engine/runtimev2/"

M = [
 ("m01", "C01", RT, "if keyInt < 0 || keyInt >= len(curVal) {\n\t\t\t\treturn nil, ast.Invalid, NewRunError(ctx,\n\t\t\t\t\t\"list index out of range\", i.StartPos())", "if keyInt < 0 || keyInt > len(curVal) {\n\t\t\t\treturn nil, ast.Invalid, NewRunError(ctx,\n\t\t\t\t\t\"list index out of range\", i.StartPos())"),
 ("m02", "C01", FN+"fn_len.go", "\tswitch dtype { //nolint:exhaustive\n\tcase ast.Map:", "\tif dtype == ast.Nil {\n\t\tdtype = ast.String\n\t}\n\tswitch dtype { //nolint:exhaustive\n\tcase ast.Map:"),
 ("m03", "C02", RT, "\t\treturn l / r, ast.Int, nil", "\t\treturn int64(float64(l) / float64(r)), ast.Int, nil"),
 ("m04", "C02", RT, "\t\tcase ast.OR:\n\t\t\tif cast.ToBool(lhs) {\n\t\t\t\treturn true, ast.Bool, nil\n\t\t\t}", "\t\tcase ast.OR:\n\t\t\tif !cast.ToBool(lhs) {\n\t\t\t\treturn false, ast.Bool, nil\n\t\t\t}"),
 ("m05", "C02", RT, "\tlhsVal, lhsValType, errOpInt := RunStmt(ctx, expr.LHS)\n\tif errOpInt != nil {\n\t\treturn nil, ast.Invalid, errOpInt\n\t}\n\n\trhsVal, rhsValType, errOpInt := RunStmt(ctx, expr.RHS)", "\trhsVal, rhsValType, errOpInt := RunStmt(ctx, expr.RHS)\n\tif errOpInt != nil {\n\t\treturn nil, ast.Invalid, errOpInt\n\t}\n\n\tlhsVal, lhsValType, errOpInt := RunStmt(ctx, expr.LHS)"),
 ("m06", "C02", RT, "\t\treturn cast.ToInt(lhs) < cast.ToInt(rhs), ast.Bool, nil", "\t\treturn cast.ToFloat64(lhs) < cast.ToFloat64(rhs), ast.Bool, nil"),
 ("m07", "C03", RT, "\t\tif ctx.loopContinue {\n\t\t\tctx.loopContinue = false\n\t\t}\n\n\t\tif ctx.StmtRetrun() {", "\t\tif ctx.loopContinue {\n\t\t\tctx.loopContinue = false\n\t\t\tcontinue\n\t\t}\n\n\t\tif ctx.StmtRetrun() {"),
 ("m08", "C03", RT, "func forbreak(ctx *Task) bool {\n\tif ctx.loopBreak {\n\t\tctx.loopBreak = false\n\t\treturn true", "func forbreak(ctx *Task) bool {\n\tif ctx.loopBreak {\n\t\treturn true"),
 ("m09", "C03", RT, "\t\tfor _, x := range iter {\n\t\t\tctx.stackCur.Clear()\n\t\t\tx, dtype := ast.DectDataType(x)", "\t\tfor _, x := range iter {\n\t\t\tx, dtype := ast.DectDataType(x)"),
 ("m10", "C03", RT, "\tcase ast.String:\n\t\tif cast.ToString(val) == \"\" {\n\t\t\treturn false\n\t\t}\n\tcase ast.Bool:\n\t\treturn cast.ToBool(val)\n\tcase ast.Int:", "\tcase ast.String:\n\tcase ast.Bool:\n\t\treturn cast.ToBool(val)\n\tcase ast.Int:"),
 ("m11", "C04", RT, "\tcase !hasEnd:\n\t\tend = -1\n", "\tcase !hasEnd:\n\t\tend = 0\n"),
 ("m12", "C04", RT, "\t\t\t// 反转负数\n\t\t\tif keyInt < 0 {\n\t\t\t\tkeyInt = len(curVal) + keyInt\n\t\t\t}\n\n\t\t\tif keyInt < 0 || keyInt >= len(curVal) {\n\t\t\t\treturn nil, ast.Invalid, NewRunError(ctx,\n\t\t\t\t\t\"list index out of range\", i.StartPos())", "\t\t\t// 反转负数\n\t\t\tif keyInt < 0 {\n\t\t\t\tkeyInt = len(curVal) - 1 + keyInt\n\t\t\t}\n\n\t\t\tif keyInt < 0 || keyInt >= len(curVal) {\n\t\t\t\treturn nil, ast.Invalid, NewRunError(ctx,\n\t\t\t\t\t\"list index out of range\", i.StartPos())"),
 ("m13", "C04", RT, "\t\tret = append(ret, v)\n\t}\n\treturn ret, ast.List, nil", "\t\tif l, ok := v.([]any); ok {\n\t\t\tv = append([]any{}, l...)\n\t\t}\n\t\tret = append(ret, v)\n\t}\n\treturn ret, ast.List, nil"),
 ("m14", "C05", LEX, "\t\tl.parenDepth--\n\t\tif l.parenDepth < 0 {\n\t\t\treturn l.errorf(\"unexpected right parenthesis %q\", r)\n\t\t}\n\t\treturn lexStatements", "\t\tl.parenDepth--\n\t\treturn lexStatements"),
 ("m15", "C05", PAR, "\tp.injecting = false\n\tp.errs = nil", "\tp.errs = nil"),
 ("m16", "C06", "pkg/parser/gram_y.go", None, None),  # placeholder: table-level mutants are produced by the sub-agents
 ("m17", "C07", STR, "\tcase 'v':\n\t\tvalue = '\\v'\n", "\tcase 'v':\n\t\tvalue = 'v'\n"),
 ("m18", "C07", STR, "\t\tif v > 255 {\n\t\t\terr = ErrSyntax\n\t\t\treturn\n\t\t}", "\t\tif v > 377 {\n\t\t\terr = ErrSyntax\n\t\t\treturn\n\t\t}"),
 ("m19", "C07", PAR, "strconv.ParseInt(v.Val, 0, 64)", "strconv.ParseInt(v.Val, 10, 64)"),
 ("m20", "C07", LEX, "if kw, ok := keywords[strings.ToLower(word)]; ok {", "if kw, ok := keywords[word]; ok {"),
 ("m21", "C08", CK, "\tif err := RunStmtCheck(ctx, ctxCheck, expr.RHS); err != nil {\n\t\treturn err\n\t}\n\tif err := RunStmtCheck(ctx, ctxCheck, expr.LHS); err != nil {\n\t\treturn err\n\t}\n\treturn nil\n}\n\nfunc RunAssignmentExprCheck", "\tif err := RunStmtCheck(ctx, ctxCheck, expr.RHS); err != nil {\n\t\treturn err\n\t}\n\treturn nil\n}\n\nfunc RunAssignmentExprCheck"),
 ("m22", "C08", CK, "\t\tif err := RunStmtCheck(ctx, ctxCheck, v[1]); err != nil {\n\t\t\treturn err\n\t\t}\n\t}\n\treturn nil\n}\n\nfunc RunParenExprCheck", "\t}\n\treturn nil\n}\n\nfunc RunParenExprCheck"),
 ("m23", "C08", CK, "\t// check loop\n\tif err := RunStmtCheck(ctx, ctxCheck, stmt.Loop); err != nil {\n\t\treturn err\n\t}\n", "\t// check loop\n"),
 ("m24", "C08", FN+"fn_addkey.go", "if len(funcExpr.Param) > 2 || len(funcExpr.Param) < 1 {", "if len(funcExpr.Param) > 3 || len(funcExpr.Param) < 1 {"),
 ("m25", "C09", "pkg/engine/callref.go", "\tp.retMap[name] = procc\n\tsPath.Pop()\n", "\tp.retMap[name] = procc\n"),
 ("m26", "C09", "pkg/engine/callref.go", "\t\t\t\t\treturn e.Copy().ChainAppend(\n\t\t\t\t\t\tprocc.Name, expr.NamePos)", "\t\t\t\t\treturn e.ChainAppend(\n\t\t\t\t\t\tprocc.Name, expr.NamePos)"),
 ("m27", "C10", PT, "\tdelete(pt.Meta, key)\n\tPutMeta(m)", "\tPutMeta(m)"),
 ("m28", "C10", PT, "\tif m.PtFlag == PtField {\n\t\tdelete(pt.Fields, key)\n\t\tm.DType, m.PtFlag = ast.String, PtTag\n\t}\n\n\tif str, err := plruntime.Conv2String(value, dtype); err == nil {", "\tif m.PtFlag == PtField {\n\t\tm.DType, m.PtFlag = ast.String, PtTag\n\t}\n\n\tif str, err := plruntime.Conv2String(value, dtype); err == nil {"),
 ("m29", "C10", PT, "\t\tcase ast.List, ast.Map:\n\t\t\tif v, err := plruntime.Conv2String(value, dtype); err == nil {\n\t\t\t\tpt.Fields[key] = v\n\t\t\t\tm.DType = ast.String", "\t\tcase ast.List, ast.Map:\n\t\t\tif _, err := plruntime.Conv2String(value, dtype); err == nil {\n\t\t\t\tpt.Fields[key] = value\n\t\t\t\tm.DType = dtype"),
 ("m30", "C11", CTX, "\tif v, err := ctx.stackCur.Get(key); err == nil {\n\t\treturn v, nil\n\t}\n\n\tif v, t, err := ctx.input.Get(key); err == nil {\n\t\treturn &Varb{\n\t\t\tValue: v,\n\t\t\tDType: t,\n\t\t}, nil\n\t}\n\n\treturn nil, fmt.Errorf(\"key not found\")", "\tif v, t, err := ctx.input.Get(key); err == nil {\n\t\treturn &Varb{\n\t\t\tValue: v,\n\t\t\tDType: t,\n\t\t}, nil\n\t}\n\n\tif v, err := ctx.stackCur.Get(key); err == nil {\n\t\treturn v, nil\n\t}\n\n\treturn nil, fmt.Errorf(\"key not found\")"),
 ("m31", "C11", FN+"fn_trim.go", "\tif err = addKey2PtWithVal(ctx.InData(), key, val, ast.String,\n\t\tinput.KindPtDefault); err != nil {", "\tif err = addKey2PtWithVal(ctx.InData(), key, val, ast.String,\n\t\tinput.KindPtTag); err != nil {"),
 ("m32", "C11", FN+"fn_uppercase.go", "\tcont, err := ctx.GetKeyConv2Str(key)\n\tif err != nil {\n\t\tl.Debug(err)\n\t\treturn nil\n\t}", "\tcont, err := ctx.GetKeyConv2Str(key)\n\tif err != nil {\n\t\tl.Debug(err)\n\t\tcont = \"\"\n\t}"),
 ("m33", "C11", FN+"fn_urldecode.go", "\tif v, err := UrldecodeHandle(cont); err != nil {\n\t\treturn runtime.NewRunError(ctx, err.Error(), funcExpr.NamePos)\n\t} else if", "\tif v, _ := UrldecodeHandle(cont); false {\n\t\treturn nil\n\t} else if"),
 ("m34", "C12", CK, "\tfor _, ifelem := range stmt.IfList {\n\t\tif err := RunStmtCheck(ctx, ctxCheck, ifelem.Condition); err != nil {\n\t\t\treturn err\n\t\t}\n\n\t\tctx.StackEnterNew()\n\t\tif ifelem.Block != nil {\n\t\t\tif err := RunStmtsCheck(ctx, ctxCheck, ifelem.Block.Stmts); err != nil {\n\t\t\t\treturn err\n\t\t\t}\n\t\t}\n\t\tctx.StackExitCur()\n\t}", "\tfor _, ifelem := range stmt.IfList {\n\t\tif err := RunStmtCheck(ctx, ctxCheck, ifelem.Condition); err != nil {\n\t\t\treturn err\n\t\t}\n\n\t\tif ifelem.Block != nil {\n\t\t\tif err := RunStmtsCheck(ctx, ctxCheck, ifelem.Block.Stmts); err != nil {\n\t\t\t\treturn err\n\t\t\t}\n\t\t}\n\t}"),
 ("m35", "C12", FN+"fn_grok.go", "\tm, _, err := grokRe.RunWithTypeInfo(val, trimSpace)", "\t_ = trimSpace\n\tm, _, err := grokRe.RunWithTypeInfo(val, true)"),
 ("m36", "C12", FN+"fn_default_time.go", "\t\tdeletePtKey(ctx.InData(), key)\n\t\tif err := setPointTime(ctx.InData(), tn); err != nil {\n\t\t\tl.Debug(err)\n\t\t\treturn nil\n\t\t}\n\t\tdeletePtKey(ctx.InData(), key)", "\t\tif err := setPointTime(ctx.InData(), tn); err != nil {\n\t\t\tl.Debug(err)\n\t\t\treturn nil\n\t\t}"),
 ("m37", "C12", FN+"fn_xml.go", "addKey2PtWithVal(ctx.InData(), fieldName, dest.InnerText()", "addKey2PtWithVal(ctx.InData(), xmlKey+fieldName[:0], dest.InnerText()"),
 ("m38", "C13", RT, "\tInitCtx(newctx, ctx.input, s, ctx.signal)\n\n\treturn RunStmts(newctx, s.Ast)", "\tInitCtx(newctx, ctx.input, s, ctx.signal)\n\tnewctx.stackCur = ctx.stackCur\n\n\treturn RunStmts(newctx, s.Ast)"),
 ("m39", "C13", RT, "\tInitCtx(newctx, ctx.input, s, ctx.signal)\n\n\treturn RunStmts(newctx, s.Ast)", "\tInitCtx(newctx, ctx.input, s, ctx.signal)\n\n\terr := RunStmts(newctx, s.Ast)\n\tif newctx.procExit {\n\t\tctx.procExit = true\n\t}\n\treturn err"),
 ("m40", "C13", FN+"fn_use.go", "\t\treturn err.ChainAppend(ctx.Name(), funcExpr.NamePos)", "\t\treturn err"),
 ("m41", "C14", RT, "\t\tif ctx.StmtRetrun() {\n\t\t\tbreak\n\t\t}\n\n\t\t// loop stmt", "\t\t// loop stmt"),
 ("m42", "C14", RT, "InitCtx(newctx, ctx.input, s, ctx.signal)", "InitCtx(newctx, ctx.input, s, nil)"),
 ("m43", "C15", CTX, "func PutContext(ctx *Task) {\n\t*ctx = Task{}\n", "func PutContext(ctx *Task) {\n\tctx.stackCur, ctx.stackHeader = nil, nil\n"),
 ("m44", "C15", PT, "\tfor k, v := range pt.Meta {\n\t\tdelete(pt.Meta, k)\n\t\tPutMeta(v)\n\t}", "\tfor _, v := range pt.Meta {\n\t\tPutMeta(v)\n\t}"),
 ("m45", "C17", "pkg/token/token.go", "\t\tif pos < Pos(c.lineStartPos[m]) {\n\t\t\tend = m", "\t\tif pos <= Pos(c.lineStartPos[m]) && m > 0 {\n\t\t\tend = m"),
 ("m46", "C17", PAR, "\t\tStart:     p.posCache.LnCol(ifTk.Pos),", "\t\tStart:     ast.NodeStartPos(condition),"),
 ("m47", "C17", "pkg/errchain/error.go", "\t\tPosChain: append([]Position{}, e.PosChain...),", "\t\tPosChain: e.PosChain,"),
 ("m48", "C18", V2+"run.go", "\tctx.Regs.ReturnAppend(V{ret, ast.List})\n\treturn nil\n}\n\nfunc RunMapInitExpr", "\treturn nil\n}\n\nfunc RunMapInitExpr"),
 ("m49", "C18", V2+"run.go", "\tcase ast.TypeIdentifier:\n\t\tif v, err := ctx.GetKey(node.Identifier().Name); err != nil {\n\t\t\treturn NewRunError(ctx, fmt.Sprintf(\"name `%s` is not defined\",\n\t\t\t\tnode.Identifier().Name), node.StartPos())\n\t\t} else {", "\tcase ast.TypeIdentifier:\n\t\tif v, err := ctx.GetKey(node.Identifier().Name); err != nil {\n\t\t\tctx.Regs.ReturnAppend(V{nil, ast.Nil})\n\t\t\treturn nil\n\t\t} else {"),
 ("m50", "C19", V2+"funcs.go", "\t\t\t\tif params[pi].Name == pName {\n\t\t\t\t\tfound = true", "\t\t\t\tif pi == ePIndex || params[pi].Name == pName {\n\t\t\t\t\tfound = true"),
 ("m51", "C19", V2+"funcs.go", "\t\t\tif params[i].Val != nil {\n\t\t\t\treturn params[i].Val(), nil", "\t\t\tif params[i].Val != nil {\n\t\t\t\tif i > 0 && params[i-1].Val != nil {\n\t\t\t\t\treturn params[i-1].Val(), nil\n\t\t\t\t}\n\t\t\t\treturn params[i].Val(), nil"),
 ("m52", "C20", "internal/cmd/platypus/run/run.go", "\t\t\t\"tags\":        tags,\n\t\t\t\"fields\":      fields,", "\t\t\t\"tags\":        tags,\n\t\t\t\"fields\":      tags,"),
 ("m53", "C20", "internal/cmd/platypus/run/run.go", "\t\tfields = map[string]any{\"message\": string(data)}", "\t\tfields = map[string]any{\"msg\": string(data)}"),
 ("m54", "C16", RT, "func RunListInitExpr(ctx *Task, expr *ast.ListLiteral) (any, ast.DType, *errchain.PlError) {\n\tret := []any{}", "var scratchList []any\n\nfunc RunListInitExpr(ctx *Task, expr *ast.ListLiteral) (any, ast.DType, *errchain.PlError) {\n\tscratchList = scratchList[:0]\n\tscratchList = append(scratchList, nil)\n\tret := []any{}"),
 ("m55", "C16", FN+"fn_grok.go", "\tgrokRe := funcExpr.Grok\n\tif grokRe == nil {", "\tfuncExpr.Re = nil\n\tgrokRe := funcExpr.Grok\n\tif grokRe == nil {"),
 ("m56", "C06", "pkg/parser/parser.go", "\tfor { // skip comment\n\t\tp.lex.NextItem(&lval.item)\n\t\ttyp = lval.item.Typ\n\t\tif typ != COMMENT {\n\t\t\tbreak\n\t\t}\n\t}", "\tp.lex.NextItem(&lval.item)\n\ttyp = lval.item.Typ"),
]


def sh(cmd, **kw):
    return subprocess.run(cmd, shell=True, stdout=subprocess.PIPE, stderr=subprocess.STDOUT, text=True, **kw)


def main():
    want = set(sys.argv[1:])
    sh(f"git -C /repo worktree remove --force {WT}")
    r = sh(f"git -C /repo worktree add -q {WT} HEAD")
    if r.returncode != 0:
        print(r.stdout)
        return 1
    results = []
    env = dict(os.environ, VERIF_REPO=WT)
    env.update(GOFLAGS="-mod=mod", GOPROXY="off", GOSUMDB="off", GOTOOLCHAIN="local")
    try:
        for mid, prop, f, old, new in M:
            if old is None or (want and mid not in want and prop not in want):
                continue
            p = os.path.join(WT, f)
            src = open(p).read()
            if src.count(old) != 1:
                results.append((mid, prop, "PATCH-DOES-NOT-APPLY(%d)" % src.count(old), 0))
                print(results[-1], flush=True)
                continue
            open(p, "w").write(src.replace(old, new))
            b = sh("go build ./... ", cwd=WT, env=env)
            if b.returncode != 0:
                results.append((mid, prop, "DOES-NOT-BUILD " + b.stdout[-200:], 0))
                open(p, "w").write(src)
                print(results[-1], flush=True)
                continue
            t0 = time.time()
            r = sh(f"{V}/check {prop} quick", env=env, cwd=V)
            verdict = {0: "MISSED", 1: "CAUGHT", 2: "INCONCLUSIVE"}.get(r.returncode, str(r.returncode))
            first = ""
            for line in r.stdout.splitlines():
                if line.startswith("  ") and not first:
                    first = line.strip()[:160]
            results.append((mid, prop, verdict, round(time.time() - t0, 1), first))
            print(results[-1], flush=True)
            open(p, "w").write(src)
    finally:
        sh(f"git -C /repo worktree remove --force {WT}")
        sh("rm -rf /tmp/verif-harness-*")
    json.dump(results, open(os.path.join(V, ".build", "mutants-last.json"), "w"), indent=1)
    missed = [r for r in results if r[2] != "CAUGHT"]
    print(f"{len(results) - len(missed)}/{len(results)} caught; not caught: {[r[:3] for r in missed]}")
    return 0


if __name__ == "__main__":
    sys.exit(main())
