#!/usr/bin/env python3
"""Prints the markdown table of the seeded changes (seeded/*/meta.json + seeded/RESULTS.json + seeded/FIRST_ROUND.json)."""
import json, os
V = os.path.dirname(os.path.dirname(os.path.abspath(__file__)))
sd = os.path.join(V, "seeded")
res = json.load(open(os.path.join(sd, "RESULTS.json")))
first = {}
fp = os.path.join(sd, "FIRST_RUN.json")
if os.path.exists(fp):
    first = json.load(open(fp))
print("| Seeded change | Breaks | Needs to manifest | First run of the check | Now |")
print("|---|---|---|---|---|")
for n in sorted(d for d in os.listdir(sd) if os.path.isdir(os.path.join(sd, d))):
    m = json.load(open(os.path.join(sd, n, "meta.json")))
    r = res.get(n, {})
    now = r.get("status", "?")
    det = ""
    for k, v in r.get("checks", {}).items():
        if v["verdict"] == "caught":
            det = f" ({k}: {v['first_report'][:90]})"
    print(f"| {n} | {m['property']} | {m['needs_to_manifest']} | {first.get(n, now)} | {now}{det} |".replace("\n", " "))
