#!/usr/bin/env python3
"""Generates /verif/MANIFEST.json from the table below (single source of truth for claimed checks)."""
import json, os, sys
V = os.path.dirname(os.path.dirname(os.path.abspath(__file__)))
ALL = [f"C{i:02d}" for i in range(1, 21)]

# id -> (category, text, note, technique)
CLAIMED = {
 "C05": ("exploration",
   "Generated-input search (rapid) over arbitrary bytes, token sequences, mutated valid programs, malformed strings/numbers and deep nesting, plus native coverage-guided fuzzing in the thorough tier; every input is judged by the explicit C05 oracle (tree xor positioned diagnostic, independent Ln/Col computation, no internal recover, lexer covering invariant). Finds crashes/hangs/position errors on inputs tests never sample; does not prove absence. Also: the same statement repeated 2..1000 times (error-count limits), one error per operand of a long expression, texts of 64 KiB .. 8 MiB each followed by a small parse, a lexer panic on the exported lexer is a violation; every third parse is preceded by a parse of an unrelated malformed text. Further: typed literals as slice bounds, names made of continuation bytes, U+2028 / U+2029 and other separator characters.",
   "Trusted: Go toolchain, rapid. Inputs bounded to 4 KiB (fuzz) / nesting depth 2000. A hang surfaces as the go test timeout (exit 2, inconclusive) with the heartbeat input saved.",
   "property-based testing (rapid) + coverage-guided fuzzing (go test -fuzz) against a validity oracle"),

 "C06": ("exploration",
   "Round-trip property over generated syntax trees: exhaustive operator-pair table (every ordered pair of 14 binary operators, both nestings, unary combinations) plus random statement/expression trees printed with only the parentheses the precedence table requires, under random admissible layouts and with redundant parentheses; the parsed tree must equal the generated one. Reaches every operator pairing and layout position, which the hand-written parser tests sample sparsely. Also: chains of up to 400 operators, nesting of every bracketing construct to depth 60, blocks to depth 40, hexadecimal / upper-case numeric spellings, integer-boundary floats; every third parse is preceded by a parse of an unrelated malformed text. Further: empty statements at the start of blocks, identifiers that begin or end like reserved words, octal spellings.",
   "Trusted: the harness printer/converter (self-consistent by construction: a printer bug shows up as a violation on the unchanged tree), the precedence rows for `in` and unary operators taken from gram.y because the reference omits them. Depth <= 5, <= 6 statements per program.",
   "property-based round-trip testing (print -> parse -> compare) with rapid, plus exhaustive enumeration of the operator-pair table"),
 "C07": ("exploration",
   "Exhaustive enumeration of all literal bodies up to length 5 (quick) / 6 (thorough) over a 12-character hostile alphabet in the five quoting forms, random escape-fragment spellings, value round trips through four independent encoders, integer boundaries at every power of two/ten, random float64 bit patterns, all keyword case patterns; judged by a reference decoder written from Go's escape rules that is itself cross-checked against strconv.Unquote. Also: bodies of 255..70000 bytes in all five forms, numerals of up to 1000 digits, floats at the integer boundaries, zeros and underflows under one, two and three signs and parentheses (bit-exact, so the sign of zero counts). Further: CR in the alphabet, numerals directly followed by operators, leading-zero numerals, literals preceded by context statements holding the other quoting forms.",
   "Trusted: strconv.ParseFloat/Unquote as the numeric/escape reference. Weak oracle (rejected or exact) where the reference does not define the form (quotes inside triple-quoted bodies, raw NUL, empty back-quoted identifier).",
   "exhaustive bounded enumeration + property-based testing (rapid) against a reference decoder; native fuzzing of literal bodies in the thorough tier"),
 "C17": ("exploration",
   "Tree positions: every position field of trees parsed from generated programs (token offsets known to the printer) under multi-byte/CRLF/comment layouts; error positions: a (fault x wrapper) table and random nestings of injected load-time and run-time faults, each error position must lie inside the faulty statement and have consistent Ln/Col; lookup routines: exhaustive over all texts of length <= 7 over {a, LF, é} x all offsets; error chains: rendering, JSON round trip, copy isolation for random chains of 1..4 positions. Also: texts with 70000 lines / 70000-column lines / CR LF / thousands of multi-byte characters (parse, load and run errors at the end, lookup routines at sampled offsets), identifiers that start with U+FEFF and other format characters; every third parse is preceded by a parse of an unrelated malformed text. Further: a parse-error position table, errors rendered while their chain is still growing, chains of up to 9 positions, lookup alphabets with CR and U+2028.",
   "Trusted: the harness printer's offsets. Whether a fault must be reported at all is left to C02/C04/C08/C11; C17 checks where it is reported.",
   "property-based testing with a position-recording printer as oracle; exhaustive enumeration for the lookup routines"),

 "C01": ("exploration",
   "Random hostile programs over the whole grammar (ill-typed operands, extreme constants, extreme/reversed slice bounds, bad index keys, object-less index, value-less constructs in value position, every builtin in every accepted argument shape, typed uses of point keys after builtins changed them) crossed with random points (all field types, non-UTF-8 strings, tags overlapping identifiers); thorough adds native coverage-guided fuzzing of source text through the real loader. Oracle: Run returns, any error is a positioned script error. The search space is far beyond what unit tests sample; a crash needs one witness. Also: sequences of the key-moving builtins (rename, add_key, drop_key, set_tag, cast, set_measurement, default_time) followed by type-directed uses of the keys; every run is preceded by an unrelated failing / cancelled run of another script on the same pooled task. Further: collections that merely hold a self-containing one, zero-argument builtin calls in conditions of empty branches, the precision / format arguments of datetime in other letter cases.",
   "Resource exhaustion (exponential string growth, unbounded loops) is excluded by a model-side size budget and a counting signal; nesting depth bounded. No claim about programs outside the generator's shapes.",
   "property-based testing (rapid) + coverage-guided fuzzing with a no-crash / well-formed-error oracle"),
 "C02": ("exploration",
   "Exhaustive operator x operand-pair table (14 binary operators x 33^2 ordered operand pairs x literal/variable/point-key delivery, compound assignments, unary operators, short-circuit table with probes) plus random expression trees with pval() probes; every outcome is compared with a reference model of the operator semantics in value, Go type, evaluation order/count and error presence, both through the probe and through the field written by add_key. Also: one operator node evaluated in a loop over operands of changing types, un-parenthesised chains of 1..300 operators (each operand evaluated once, in order), operand values with nil-valued maps and 4-byte characters; after the first run the same loaded script is run again on an equal point, on a point whose fields changed type, and an earlier case's script is re-run (history checks of sem.Decide). Further: compound assignment on point-only keys, operands retyped in nested blocks, floats of value 2^63 under a sign.",
   "Rows the reference leaves open accept either alternative (listed in DESIGN.md 3.2); a change between two accepted alternatives is not detected by design. Errors compared by presence and location, not text.",
   "exhaustive table enumeration + model-based property testing (rapid) against a reference interpreter"),
 "C03": ("exploration",
   "Random programs of nested branches, all 8 for shapes, for-in over list/string/map/point values, break/continue, assignments to new/outer/shadowing names overlapping point keys, with probes after statements; the ordered probe trace, error presence/location and final point must equal the reference model's. Plus an exhaustive truthiness table (33 values x if/elif/for/point-key conditions). Also: compound assignment on point keys, blocks nested to depth 40, loops of up to 70000 passes, strings with 4-byte characters, observable loop clauses; history checks as in C02. Further: loop-clause scope cases, nested map loops (compared as multisets), a point key read right after a builtin rewrote it.",
   "Loops terminate by construction (counter bounded <= 3, nesting <= 3); programs whose outcome depends on map iteration order are discarded (counted).",
   "model-based property testing (rapid) with trace comparison"),
 "C04": ("exploration",
   "Exhaustive slices (17 subjects x 22^3 bounds, 16 syntactic/delivery forms; quick: all extreme-bound cases + 1/8 stride), exhaustive index paths of depth<=3 over two nested shapes x 19 keys x {read, write, compound write, write through alias}, random alias/mutation/snapshot programs incl. load_json values; compared with the reference model (CPython slice algorithm, reference sharing, add_key JSON snapshot). Also: a collection literal evaluated repeatedly (loops, second run) yields a fresh collection each time; subjects of 31..1000 elements with bounds around both ends; history checks as in C02. Further: a list written to while it is iterated, documents decoded twice, block-local collections that stay reachable after their block, nil-valued bounds in every position and delivery.",
   "Non-ASCII string slices accept byte-wise or rune-wise results (reference silent); nil-valued bounds accept omitted-or-error.",
   "bounded exhaustive enumeration + model-based property testing (rapid)"),

 "C09": ("exploration",
   "Exhaustive enumeration of all script sets of 1..3 scripts (each valid with 0..2 use() calls to any member, itself or a missing name, or unparsable, or check-failing) under every insertion order and repeated loads, 4-script sets sampled (quick) / complete (thorough), compared with a graph model: verdict partition, binding of every accepted use call, exact error chains. The visiting order (map iteration) is reached through insertion order x repetition. Also: use chains of 5..40 scripts with six endings and wide fans, use calls inside loop bodies after conditional break / continue and in else branches, check failures whose own error has 1..6 positions, three unparsable forms. Further: names that contain one another, names with directories and equal base names, names with formatter characters; the exported linker fed with scripts of an earlier load and a replaced callee; Check called again on linked scripts.",
   "Visiting orders are sampled, not enumerated (no hook). For cycles the first chain entry may be the rejected script at one of its use calls or the closing call.",
   "bounded exhaustive enumeration of configurations against a reference graph model (plus rapid sampling for 4-script sets)"),
 "C13": ("exploration",
   "Random call trees (depth <= 3, 2..4 scripts) whose bodies share one name pool and the point, with exit() and failing statements inserted at sampled statement positions of every script; ordered probe trace, final point and the exact error chain (failing statement in the callee, then every use call site outward) are compared with the reference model. Also: use chains of depth 5..40 ending in exit(), perr() or an ill-typed statement; history checks as in C02 (a loaded script set is run several times). Further: exit() inside value statements, assignment sources, conditions and arguments; four script-name schemes. Round 6: half of the sets are loaded with one function table per script (parse, Check, exported linker) in which every probe function checks that it runs on behalf of the script whose table it sits in; script names with '%'.",
   "Call graphs are acyclic by construction; loading goes through ParseScript. Insert positions are sampled (6 per set quick, 16 thorough), not all enumerated.",
   "model-based property testing (rapid) over script sets"),
 "C14": ("fault_enumeration",
   "For each generated loop-bearing program the cancellation signal is made to fire at every poll index k (the harness owns the signal): the run must return nil, its probe trace must be a prefix of the uninterrupted trace, and no probe may execute after the poll that returned true; 11 non-terminating programs (empty bodies, nested, inside callees) x k<=60/200, both interpreters. Also: the flag raised from inside a builtin (during the n-th probe call, n up to 65537) - no probe call may follow; poll indices far into the run (to 40009); loops over a map that the body grows (order-free part of the oracle); loop clauses and conditions that leave probe records. Further: a typed-nil signal with a nil-receiver method, the flag raised inside the right side of an assignment, programs without a three-clause loop (the signal must be polled at all), two overlapping runs with their own signals and one shared option slice.",
   "Promptness is measured in polls/probe calls, not time; a 20 s watchdog is the only clock and only matters for empty-bodied infinite loops. Fault points are the signal's polls, i.e. the interpreter's own poll sites.",
   "fault enumeration over the poll index of a harness-owned cancellation signal, on rapid-generated programs"),
 "C18": ("exploration",
   "Exhaustive (value-less construct x consuming position x predecessor) table (7 x 27 x 7) and random v2 programs with multi-assignment, swaps and multi-value functions, compared with the reference model in the v2 dialect; programs inside the common language are additionally run on v1 and must give the same trace. Also: v2 loop-scope table (a body-local name read in a later pass), v2 slice-copy table (a write through a slice or its source is not visible in the other), multi-assignment with element targets and aliases; history checks as in C02. Further: inner loops left by break after the body-local assignment, v2 index paths of depth 1..3 with absent keys, loop-clause scope cases. Round 6: one loaded script run 2..4 times along different paths (probe function pmode() chosen per run): a run failing inside an if / for / for-in block after top-level assignments, followed by a run that reads such a name before assigning it and by runs that complete, each compared with the reference started from nothing; a v2 for-in sees writes to positions it has not reached (through the name, an alias, a container).",
   "v2 builtins come from the harness's function table and read their arguments through GetParam, like real v2 builtins.",
   "exhaustive table + model-based and differential (v1 vs v2) property testing (rapid)"),
 "C19": ("exploration",
   "All 14425 parameter lists of length <= 3 (and, thorough, all 331776 of length 4) are validated against a reference validator; every valid list is crossed with all 1555 call shapes of <= 4 arguments (thorough: <= 5) and the values received through GetParam are compared with a reference binder; typed getters with well/ill-typed arguments. Also: several calls in one run - nested in each other's arguments and in sequence - with values kept by reference and compared at the end of the run, nil arguments, default factories returning fresh collections that the callee writes to, 8..100 parameters and up to 300 variadic arguments. Further: script variables spelled like parameters stay untouched, one call of the script made unbindable must reject the load wherever it sits, call statements placed after a conditional continue / break, Check called again before the run. Round 6: a fourth parameter kind (variadic with a default, never valid) and names differing only by letter case ('a'/'A', 'sep'/'Sep'/'SEP') in lists and calls.",
   "Names from {a,b,c,A,1x,\"\"}; argument values are integer literals.",
   "exhaustive enumeration against a reference binder, plus rapid sampling of longer lists/calls"),

 "C08": ("exploration",
   "Generated valid base programs are accepted by both loaders; then every (expression slot, offender) pair - 59 offender kinds: unregistered function, each builtin's argument-rule violations, non-string map-key literals; break/continue at every statement position outside loops - is inserted (quick: a random 1/8 of the pairs per base program, thorough: all) and must be rejected by ParseScript and ParseV2 with an error pointing inside the offender; random v2 function tables with CheckPassParam checkers and binding violations; generated statically-valid builtin programs are never rejected. Also: the offender under 1..48 enclosing calls / literals / parentheses, the same name and text loaded under function tables that lack a used function in the call table, the check table or both (in every order relative to an accepting load), named-argument forms that hide a missing required parameter. Further: offenders as surplus values of assignments, pattern aliases across sibling branches, function names in other letter cases, base programs with empty blocks.",
   "Offenders are statically invalid by the documented rules; dynamically wrong programs are not offenders. Base programs to depth 3.",
   "property-based testing (rapid) with exhaustive slot x offender enumeration per generated base program"),
 "C10": ("exploration",
   "Breadth-first exploration of operation sequences on the real point through the builtins (about 150 operations per state, de-duplicated on the abstract state, depth 3 quick / 4 thorough) plus random sequences of length <= 40; after every step the invariants of the property are checked (script read and Point.Get agree with tags/fields incl. type, no key both tag and field, value kinds, drop/rename postconditions). Also: sequences in which the point is not read back between operations (exhaustive to length 3 / 4 over a reduced operation set, and a drawn two thirds of the steps of the random sequences), two input tags, value-less values (attribute expressions, self-containing lists) as arguments, points with 150 / 1500 keys. Further: captures written by grok (a capture named like the message alias), every output key read back, non-finite casts, input fields of every Go number kind at the edges of its range.",
   "State space bounded to 5 keys and 8 value kinds; de-duplication uses the exported Meta map only to distinguish internal states.",
   "stateful property-based testing: bounded exhaustive BFS over operation sequences + rapid random sequences, invariant oracle"),
 "C11": ("exploration",
   "Complete cross product builtin (15) x argument shape (5) x subject situation (6) x subject value (14) with per-builtin call variants (about 10 000 cells), plus random compositions; the whole final point, stdout, returned value and error presence are compared with reference models of the builtins written from fn.md. Also: argument tables - replace (20 patterns x 14 replacement templates x subjects), trim cut sets, strfmt verbs x argument kinds, cast over 60 numeric-looking / boolean-looking subjects x types, nine subject classes (4-byte characters, invalid UTF-8, NUL, 70000 bytes) x 12 calls; history checks as in C02. Further: load_json documents (written to and decoded again; with trailing brackets and other garbage).",
   "spf13/cast, fmt, strings, regexp, net/url, encoding/json are trusted as the documented conversion primitives.",
   "exhaustive cross-product enumeration + model-based property testing (rapid)"),
 "C12": ("exploration",
   "Random grok programs with add_pattern definitions and grok calls scattered over nested blocks (visible and invisible references, typed captures, trim_space, all subject situations), datetime over the documented layout table, default_time over 16 layouts x 14 zone arguments x subject situations, xml over generated documents x XPath queries, sql_cover over generated SQL and garbage; compared with a reference that applies the same third-party engines under the harness's own lexical scope / lookup / destination model. Also: pattern names redefined in the same block and shadowed in nested blocks, expressions with up to 100 captures, alias chains to depth 40, subjects of 70000 bytes, house layouts with negative offsets and one-digit hours, XML documents preceded by a byte order mark / text / declarations, SQL with backslashes, comments holding quotes and token soup; history checks as in C02. Further: default pattern names redefined in a block, capture names that collide with keys or the message alias, precision spellings. Round 6: typed captures (:int/:float/:bool) of user patterns that admit padding around the number, with trim_space on and off; float subjects (5e-7, 1e21, NaN, -Inf, -0, 2^53) in every extraction builtin.",
   "grok, dateparse, xmlquery, obfuscate are trusted engines; process TZ=UTC.",
   "model-based property testing (rapid) with the engines as oracles, round-trip for times"),
 "C15": ("exploration",
   "A generated pool of parse/load/run operations (48 quick / 300 thorough; succeeding, failing mid-loop, exiting, cancelled at poll k, invalid, check-failing, grok/use) gets its reference results from fresh child processes; random histories (length <= 60 / 400) executed in one process must reproduce each reference result exactly. The pool now contains every template once directly and once as a use() callee, every malformed text and every load error, the same grok text under different alias definitions, literals that are written through; histories draw a category first and repeat earlier operations of the same history. Further: stateful-engine operations (SQL subjects, zone arguments, layouts, documents) each once, loads failing inside loop bodies, parse errors on back-quoted and triple-quoted tokens.",
   "Child = same binary re-executed; points go through the point pool; single goroutine so pooled objects are handed back to the next operation.",
   "property-based testing of histories (rapid) with a differential oracle: fresh-process result vs. in-history result"),
 "C16": ("exploration",
   "Race-detector build; rapid-generated scenarios of 2..16 goroutines mixing parsers and runners of shared loaded scripts (grok, add_pattern, use, builtins) with generated start offsets, repeated 20x under GOMAXPROCS 2/4/16; any detector report or any result differing from the sequential result is a violation. Also: goroutines that load whole script sets (alias definitions at top level, cycles, errors) concurrently with parses and runs, parses of sources with escape-laden string literals (results compared with the literal values), scripts that write into collection literals. Further: the concurrent phase runs before the sequential references are computed (lazily initialised tables are first touched under concurrency), generated sets naming unseen time zones, keywords in unseen letter-cases, dotted key names, a failing replace reached through use().",
   "Schedules are not enumerated: the detector finds unsynchronised conflicting accesses on executed paths; atomicity violations built from synchronised accesses are visible only through result comparison.",
   "randomised concurrency stress under the Go race detector with a sequential-equivalence oracle (rapid-generated scenarios)"),
 "C20": ("exploration",
   "The CLI binary is rebuilt and run as a subprocess on generated (script set, input, mode, format) cases; its output block is compared with what the library yields for the same script and input (line protocol text exactly, JSON structurally with exact numbers, time exactly or within the run window), error cases must print the library's error text and no block. Also: nil-valued and empty values, script names with dots, sub-directories holding namesakes of workspace scripts, inputs of 4 KiB .. 1 MiB. Further: a selected script that does not exist, empty / comment-only / partly malformed line-protocol inputs, use() in alternative spellings, CR LF inside literals of script files, values with HTML-sensitive characters and literal backslash-u sequences.",
   "One subprocess per case; the measurement given to a text input is compared only when the script sets it.",
   "differential property-based testing (rapid): CLI subprocess vs. library API"),
}
PENDING_REASON = "check not built yet at this commit (work in progress; see DESIGN.md section 4 for the planned PBT design)"

def main():
    checks = []
    for pid in ALL:
        if pid not in CLAIMED:
            continue
        cat, text, note, tech = CLAIMED[pid]
        checks.append({
            "property_id": pid,
            "quick_cmd": f"./check {pid} quick",
            "thorough_cmd": f"./check {pid} thorough",
            "evidence_file": f"/verif/evidence/{pid}.json",
            "replay_cmd_template": f"./check {pid} --replay {{path}}",
            "engine": "harness",
            "level_claimed": {"category": cat, "text": text, "design_ref": f"DESIGN.md section 4, {pid}"},
            "level_note": note,
            "technique": tech,
        })
    m = {
        "version": 1,
        "setup_cmd": "./setup.sh",
        "hooks": {
            "guard": "verif",
            "enable": "go build tag: the checks compile /repo with -tags verif (go test -c -tags verif); no hook file exists unless listed in source_commits",
            "baseline_off_cmd": "cd /repo && GOFLAGS=-mod=mod GOPROXY=off GOSUMDB=off GOTOOLCHAIN=local go test -vet=off -count=1 -timeout 25m ./...",
            "source_commits": [],
            "add_only": True,
        },
        "engines": [{
            "name": "harness", "path": "/verif/harness",
            "serves_properties": sorted(CLAIMED),
            "kind_free_text": "external Go module (rapid v1.3.0 property-based tests, bounded exhaustive enumerations, native go fuzz targets) driving the exported API of /repo; driver /verif/check",
        }],
        "checks": checks,
        "notes": "All checks are property-based tests / fuzzers with explicit oracles; see DESIGN.md. Genuine defects repaired by fix: commits are listed in known_findings.json.",
        "not_applicable": [{"property_id": p, "reason": PENDING_REASON} for p in ALL if p not in CLAIMED],
    }
    with open(os.path.join(V, "MANIFEST.json"), "w") as f:
        json.dump(m, f, indent=1)
        f.write("\n")

if __name__ == "__main__":
    main()
