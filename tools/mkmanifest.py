#!/usr/bin/env python3
"""Generates /verif/MANIFEST.json from the table below (single source of truth for claimed checks)."""
import json, os, sys
V = os.path.dirname(os.path.dirname(os.path.abspath(__file__)))
ALL = [f"C{i:02d}" for i in range(1, 21)]

# id -> (category, text, note, technique)
CLAIMED = {
 "C05": ("exploration",
   "Generated-input search (rapid) over arbitrary bytes, token sequences, mutated valid programs, malformed strings/numbers and deep nesting, plus native coverage-guided fuzzing in the thorough tier; every input is judged by the explicit C05 oracle (tree xor positioned diagnostic, independent Ln/Col computation, no internal recover, lexer covering invariant). Finds crashes/hangs/position errors on inputs tests never sample; does not prove absence.",
   "Trusted: Go toolchain, rapid. Inputs bounded to 4 KiB (fuzz) / nesting depth 2000. A hang surfaces as the go test timeout (exit 2, inconclusive) with the heartbeat input saved.",
   "property-based testing (rapid) + coverage-guided fuzzing (go test -fuzz) against a validity oracle"),
}
PENDING_REASON = "check not built yet at this commit (work in progress; see DESIGN.md section 4 for the planned PBT design)"

def main():
    checks = []
    for pid in ALL:
        if pid not in CLAIMED:
            continue
        cat, text, note, tech = CLAIMED[pid]
        checks.append({
            "property_id": pid,
            "quick_cmd": f"./check {pid} quick",
            "thorough_cmd": f"./check {pid} thorough",
            "evidence_file": f"/verif/evidence/{pid}.json",
            "replay_cmd_template": f"./check {pid} --replay {{path}}",
            "engine": "harness",
            "level_claimed": {"category": cat, "text": text, "design_ref": f"DESIGN.md section 4, {pid}"},
            "level_note": note,
            "technique": tech,
        })
    m = {
        "version": 1,
        "setup_cmd": "./setup.sh",
        "hooks": {
            "guard": "verif",
            "enable": "go build tag: the checks compile /repo with -tags verif (go test -c -tags verif); no hook file exists unless listed in source_commits",
            "baseline_off_cmd": "cd /repo && GOFLAGS=-mod=mod GOPROXY=off GOSUMDB=off GOTOOLCHAIN=local go test -vet=off -count=1 -timeout 25m ./...",
            "source_commits": [],
            "add_only": True,
        },
        "engines": [{
            "name": "harness", "path": "/verif/harness",
            "serves_properties": sorted(CLAIMED),
            "kind_free_text": "external Go module (rapid v1.3.0 property-based tests, bounded exhaustive enumerations, native go fuzz targets) driving the exported API of /repo; driver /verif/check",
        }],
        "checks": checks,
        "notes": "All checks are property-based tests / fuzzers with explicit oracles; see DESIGN.md. Genuine defects repaired by fix: commits are listed in known_findings.json.",
        "not_applicable": [{"property_id": p, "reason": PENDING_REASON} for p in ALL if p not in CLAIMED],
    }
    with open(os.path.join(V, "MANIFEST.json"), "w") as f:
        json.dump(m, f, indent=1)
        f.write("\n")

if __name__ == "__main__":
    main()
