#!/bin/bash
# usage: tools/tryseed.sh <seeded name> <ID> [tier]   -- runs one check against one seeded change in a scratch worktree
set -u
export GOFLAGS=-mod=mod GOPROXY=off GOSUMDB=off GOTOOLCHAIN=local
V=$(cd "$(dirname "$0")/.." && pwd)
WT=/tmp/try-wt-$$
git -C /repo worktree add -q $WT HEAD || exit 3
H=/tmp/verif-harness-$(printf %s $WT | sha1sum | cut -c1-10)
trap 'git -C /repo worktree remove --force $WT; rm -rf $H' EXIT
git -C $WT apply $V/seeded/$1/patch.diff || exit 3
shift
for id in "$@"; do
  case $id in quick|thorough) continue;; esac
  tier=quick
  for a in "$@"; do [ "$a" = thorough ] && tier=thorough; done
  VERIF_REPO=$WT $V/check $id $tier 2>&1 | grep -v "^\[check\] built" | head -${LINES_MAX:-12}
  echo "exit=${PIPESTATUS[0]}"
done
