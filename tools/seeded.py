#!/usr/bin/env python3
"""Runs the checks against the seeded changes kept under /verif/seeded/<name>/ (patch.diff + meta.json).
For each one: scratch worktree of /repo HEAD under /tmp, git apply, go build, quick check(s) of the property
it breaks (and of the extra properties listed in meta.json "also_run"), optionally the thorough tier.
Usage: tools/seeded.py [--thorough] [names...]      Results are printed and written to seeded/RESULTS.json."""
import hashlib, json, os, subprocess, sys, time

V = os.path.dirname(os.path.dirname(os.path.abspath(__file__)))
WT = "/tmp/seeded-wt"


def sh(cmd, **kw):
    return subprocess.run(cmd, shell=True, stdout=subprocess.PIPE, stderr=subprocess.STDOUT, text=True, **kw)


def main():
    global WT
    args = [a for a in sys.argv[1:] if not a.startswith("--")]
    thorough = "--thorough" in sys.argv
    jobs = 1
    outfile = None
    for a in sys.argv[1:]:
        if a.startswith("--jobs="):
            jobs = int(a.split("=")[1])
        if a.startswith("--wt="):
            WT = a.split("=")[1]
        if a.startswith("--out="):
            outfile = a.split("=")[1]
    sd = os.path.join(V, "seeded")
    names = sorted(d for d in os.listdir(sd) if os.path.isdir(os.path.join(sd, d)))
    if args:
        names = [n for n in names if n in args or any(n.startswith(a) for a in args)]
    rp = os.path.join(sd, "RESULTS.json")
    if jobs > 1:
        # split the names over workers with their own worktrees, then merge their result files
        procs = []
        for k in range(jobs):
            part = names[k::jobs]
            if not part:
                continue
            out = f"/tmp/seeded-results-{os.getpid()}-{k}.json"
            # worktree and result names carry the pid: two invocations at the same time do not share them
            cmd = [sys.executable, os.path.abspath(__file__), f"--wt=/tmp/seeded-wt-{os.getpid()}-{k}", f"--out={out}"] + (["--thorough"] if thorough else []) + ["--exact"] + part
            procs.append((subprocess.Popen(cmd), out))
        results = json.load(open(rp)) if os.path.exists(rp) else {}
        for pr, out in procs:
            pr.wait()
            if os.path.exists(out):
                results.update(json.load(open(out)))
                os.remove(out)
        json.dump(results, open(rp, "w"), indent=1, sort_keys=True)
        return 0
    if "--exact" in sys.argv:
        names = [n for n in names if n in args]
    env = dict(os.environ, VERIF_REPO=WT, GOFLAGS="-mod=mod", GOPROXY="off", GOSUMDB="off", GOTOOLCHAIN="local")
    results = {}
    if outfile is None and os.path.exists(rp):
        results = json.load(open(rp))
    for n in names:
        d = os.path.join(sd, n)
        meta = json.load(open(os.path.join(d, "meta.json")))
        sh(f"git -C /repo worktree remove --force {WT}")
        sh(f"rm -rf {WT}")
        r = sh(f"git -C /repo worktree add -q {WT} HEAD")
        if r.returncode != 0:
            print("cannot create worktree:", r.stdout)
            return 1
        try:
            a = sh(f"git -C {WT} apply {os.path.join(d, 'patch.diff')}")
            if a.returncode != 0:
                results[n] = {"status": "patch-does-not-apply", "detail": a.stdout[-300:]}
                print(n, results[n])
                continue
            b = sh("go build ./...", cwd=WT, env=env)
            if b.returncode != 0:
                results[n] = {"status": "does-not-build", "detail": b.stdout[-300:]}
                print(n, results[n])
                continue
            res = {"property": meta["property"], "checks": {}}
            for pid in [meta["property"]] + meta.get("also_run", []):
                for tier in (["quick", "thorough"] if thorough else ["quick"]):
                    t0 = time.time()
                    r = sh(f"{V}/check {pid} {tier}", env=env, cwd=V)
                    verdict = {0: "missed", 1: "caught", 2: "inconclusive"}.get(r.returncode, str(r.returncode))
                    first = ""
                    for line in r.stdout.splitlines():
                        if line.startswith("  ") and not first:
                            first = line.strip()[:240]
                    res["checks"][f"{pid}/{tier}"] = {"verdict": verdict, "seconds": round(time.time() - t0, 1), "first_report": first}
                    if verdict == "caught":
                        break
            res["status"] = "caught" if any(c["verdict"] == "caught" for c in res["checks"].values()) else "missed"
            results[n] = res
            print(n, res["status"], {k: v["verdict"] for k, v in res["checks"].items()}, flush=True)
        finally:
            sh(f"git -C /repo worktree remove --force {WT}")
            sh("rm -rf /tmp/verif-harness-" + hashlib.sha1(WT.encode()).hexdigest()[:10])
    json.dump(results, open(outfile or rp, "w"), indent=1, sort_keys=True)
    return 0


if __name__ == "__main__":
    sys.exit(main())
