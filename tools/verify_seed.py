#!/usr/bin/env python3
"""Confirms a seeded change delivered by a sub-agent and files it under /verif/seeded/<ID>-<X>/.
usage: tools/verify_seed.py <ID> <X> <package dir for the demo, relative to the repo root> "<what it needs to manifest>"
Steps (scratch worktree of /repo HEAD under /tmp, removed afterwards):
  1. demo passes on the clean tree; 2. patch applies, tree builds; 3. full test suite passes with the patch;
  4. demo fails with the patch. Only then the change is kept."""
import json, os, shutil, subprocess, sys

V = os.path.dirname(os.path.dirname(os.path.abspath(__file__)))
WT = "/tmp/seedverify-wt-%d" % os.getpid()  # per invocation: several confirmations may run at once


def sh(cmd, **kw):
    return subprocess.run(cmd, shell=True, stdout=subprocess.PIPE, stderr=subprocess.STDOUT, text=True, **kw)


def main():
    pid, x, pkg, needs = sys.argv[1:5]
    root = os.environ.get("SEED_ROOT", "/tmp/seed")
    tag = os.environ.get("SEED_TAG", "")
    src = f"{root}/{pid}/_seed/{x}"
    env = dict(os.environ, GOFLAGS="-mod=mod", GOPROXY="off", GOSUMDB="off", GOTOOLCHAIN="local")
    demos = [f for f in os.listdir(src) if f.endswith("_test.go") or f == "main.go" or f.endswith(".go")]
    if not demos:
        print("no demonstration found in", src)
        return 1
    sh(f"git -C /repo worktree remove --force {WT}; rm -rf {WT}")
    r = sh(f"git -C /repo worktree add -q {WT} HEAD")
    if r.returncode != 0:
        print(r.stdout)
        return 1
    ran = []
    ok = False
    try:
        dst = os.path.join(WT, pkg)
        os.makedirs(dst, exist_ok=True)
        for d in demos:
            shutil.copy(os.path.join(src, d), os.path.join(dst, "zz_seed_" + d if d.endswith("_test.go") else d))
        is_main = "main.go" in demos
        run = f"go run ./{pkg}" if is_main else f"go test {os.environ.get('VERIFY_FLAGS','')} -vet=off -count=1 -run 'Demo|Seed|C[0-9][0-9]' ./{pkg}/"
        clean = sh(run, cwd=WT, env=env)
        ran.append({"cmd": run + "  (clean tree)", "exit": clean.returncode, "tail": clean.stdout[-400:]})
        if clean.returncode != 0:
            print("demo FAILS on the clean tree:\n", clean.stdout[-1500:])
            return 1
        a = sh(f"git apply {src}/patch.diff", cwd=WT)
        if a.returncode != 0:
            print("patch does not apply:", a.stdout)
            return 1
        b = sh("go build ./...", cwd=WT, env=env)
        if b.returncode != 0:
            print("does not build:", b.stdout[-800:])
            return 1
        # the existing suite, without the demo
        for d in demos:
            os.rename(os.path.join(dst, "zz_seed_" + d if d.endswith("_test.go") else d), os.path.join("/tmp", "held_%d_" % os.getpid() + d))
        suite = sh("go test -vet=off -count=1 ./...", cwd=WT, env=env)
        ran.append({"cmd": "go test -vet=off -count=1 ./...  (patch applied, demo absent)", "exit": suite.returncode, "tail": "\n".join(l for l in suite.stdout.splitlines() if l.startswith(("ok", "FAIL", "---")))[-600:]})
        for d in demos:
            os.rename(os.path.join("/tmp", "held_%d_" % os.getpid() + d), os.path.join(dst, "zz_seed_" + d if d.endswith("_test.go") else d))
        if suite.returncode != 0:
            print("existing suite FAILS with the patch:\n", suite.stdout[-1500:])
            return 1
        bad = sh(run, cwd=WT, env=env)
        ran.append({"cmd": run + "  (patch applied)", "exit": bad.returncode, "tail": bad.stdout[-600:]})
        if bad.returncode == 0:
            print("demo PASSES with the patch applied: not a demonstration")
            return 1
        ok = True
    finally:
        sh(f"git -C /repo worktree remove --force {WT}; rm -rf {WT}")
    if ok:
        out = os.path.join(V, "seeded", f"{pid}-{tag}{x}")
        os.makedirs(out, exist_ok=True)
        shutil.copy(os.path.join(src, "patch.diff"), out)
        for d in demos:
            shutil.copy(os.path.join(src, d), os.path.join(out, d + ".txt" if d.endswith(".go") else d))
        if os.path.exists(os.path.join(src, "notes.md")):
            shutil.copy(os.path.join(src, "notes.md"), out)
        meta = {"property": pid, "origin": "written by an independent sub-agent that saw only the property text and a scratch worktree",
                "needs_to_manifest": needs, "demo_package_dir": pkg,
                "demo_files": [d + ".txt" for d in demos], "confirmed": ran}
        json.dump(meta, open(os.path.join(out, "meta.json"), "w"), indent=1)
        print("kept as", out)
        return 0
    return 1


if __name__ == "__main__":
    sys.exit(main())
