#!/bin/bash
# usage: tools/run_all.sh quick|thorough [ids...]   - runs the checks one after another and prints a summary table
cd "$(dirname "$0")/.."
tier=${1:-quick}; shift
ids=${@:-C01 C02 C03 C04 C05 C06 C07 C08 C09 C10 C11 C12 C13 C14 C15 C16 C17 C18 C19 C20}
for id in $ids; do
  t0=$(date +%s)
  out=$(./check $id $tier 2>&1); rc=$?
  t1=$(date +%s)
  echo "$id $tier rc=$rc $((t1-t0))s $(echo "$out" | grep -E 'OK evaluations|VIOLATION|KNOWN-FINDING|abnormally' | head -3 | tr '\n' ' ' | cut -c1-300)"
done
